#!/bin/sh
# Offline setup: nothing is built or fetched. The framework is plain Python run by the repository's own
# interpreter (/venv/bin/python, 3.12: sys.monitoring is required); this only verifies that it is usable.
set -e
here="$(cd "$(dirname "$0")" && pwd)"
cd "$here"
PY="${AWVERIF_PYTHON:-/venv/bin/python}"
"$PY" - <<'PYEOF'
import sys
assert sys.version_info >= (3, 12), "sys.monitoring (3.12+) is required"
import sqlite3, peewee, tomlkit, iso8601, jsonschema, timeslot  # the repository's own dependencies
sys.path.insert(0, ".")
import awverif.runner, awverif.hooks, awverif.gen, awverif.model, awverif.qlang
print("awverif setup ok: python", sys.version.split()[0], "sqlite", sqlite3.sqlite_version)
PYEOF
mkdir -p evidence
