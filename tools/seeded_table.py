#!/venv/bin/python
"""Prints the markdown table of /verif/seeded/*/meta.json (for DESIGN.md section 12)."""
import glob, json
print("| seeded change | breaks | what it needs to manifest | caught by (quick, seed 0) | held (also run) |")
print("|---|---|---|---|---|")
for f in sorted(glob.glob("/verif/seeded/*/meta.json")):
    m = json.load(open(f))
    caught = ", ".join(m["caught_by"]) or "**none**"
    if m.get("note"):
        caught += " (" + m["note"][:160] + "…)"
    if m.get("obsolete"):
        caught += " (on the tree it was written for; obsolete since: " + m["obsolete"][:110] + "…)"
    held = ", ".join(c for c, r in m["checks_quick_seed0"].items() if r["exit"] == 0) or "–"
    print(f"| `{m['id']}` ({', '.join(m['files'])}) | {m['breaks_property']} | {m['needs_to_manifest']} | {caught} | {held} |")
