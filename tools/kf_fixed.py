#!/venv/bin/python
"""tools/kf_fixed.py C15[,C02] <commit> "<what failed>"  — record a repaired defect."""
import json, sys
props, commit, what = sys.argv[1], sys.argv[2], sys.argv[3]
p = "/verif/known_findings.json"
doc = json.load(open(p))
for prop in props.split(","):
    doc["findings"].append(dict(status="fixed", property=prop, commit=commit, what=what,
                                line=f"fixed: property={prop} {commit} {what}"))
json.dump(doc, open(p, "w"), indent=1, ensure_ascii=False)
open(p, "a").write("\n")
