#!/venv/bin/python
"""tools/seed_regress.py [--tier quick] [--seed 0] [ids…]: re-runs, for every seeded change under /verif/seeded, the check
of the property it breaks against a scratch copy of /repo HEAD with the patch applied; updates meta.json
(checks_quick_seed0 / caught_by) and prints one line per seed. Nothing is ever applied to /repo itself."""
import glob, json, os, shutil, subprocess, sys, tempfile, time
args = sys.argv[1:]
tier, seed = "quick", "0"
while args and args[0].startswith("--"):
    k = args.pop(0)
    if k == "--tier": tier = args.pop(0)
    if k == "--seed": seed = args.pop(0)
ids = args or sorted(os.path.basename(os.path.dirname(p)) for p in glob.glob("/verif/seeded/*/meta.json"))
missed = 0
for sid in ids:
    d = f"/verif/seeded/{sid}"
    meta = json.load(open(f"{d}/meta.json"))
    if meta.get("obsolete"):
        print(f"{sid}: obsolete - {meta['obsolete'][:120]}")
        continue
    tmp = tempfile.mkdtemp(prefix="seedr-", dir="/tmp")
    try:
        subprocess.run(f"git -C /repo archive HEAD | tar -x -C {tmp}", shell=True, check=True)
        r = subprocess.run(["git", "apply", f"{d}/patch.diff"], cwd=tmp, capture_output=True, text=True)
        if r.returncode != 0:
            print(f"{sid}: patch no longer applies: {r.stderr.strip()[:200]}")
            continue
        prop = meta["breaks_property"]
        t0 = time.time()
        c = subprocess.run(["/verif/check", prop, "--tier", tier], env=dict(os.environ, AWVERIF_REPO=tmp, VERIF_SEED=seed),
                           capture_output=True, text=True)
        lines = [l for l in c.stdout.splitlines() if l.startswith(("VIOLATION", "HELD", "INCONCLUSIVE", "  kind"))]
        if tier == "quick" and seed == "0":
            meta["checks_quick_seed0"][prop] = dict(exit=c.returncode, wall_s=round(time.time() - t0, 1), first_lines=[l[:300] for l in lines[:4]])
            meta["caught_by"] = [k for k, v in meta["checks_quick_seed0"].items() if v["exit"] == 1]
            json.dump(meta, open(f"{d}/meta.json", "w"), indent=1, ensure_ascii=False)
        ok = c.returncode == 1
        if not ok:
            # a change that sits in another property's territory is recorded as caught by that property's check
            for other in [x for x in meta.get("checks_quick_seed0", {}) if x != prop and meta["checks_quick_seed0"][x].get("exit") == 1]:
                c2 = subprocess.run(["/verif/check", other, "--tier", tier], env=dict(os.environ, AWVERIF_REPO=tmp, VERIF_SEED=seed),
                                    capture_output=True, text=True)
                l2 = [l for l in c2.stdout.splitlines() if l.startswith(("VIOLATION", "HELD", "INCONCLUSIVE", "  kind"))]
                if tier == "quick" and seed == "0":
                    meta["checks_quick_seed0"][other] = dict(exit=c2.returncode, wall_s=0, first_lines=[l[:300] for l in l2[:4]])
                    meta["caught_by"] = [k for k, v in meta["checks_quick_seed0"].items() if v["exit"] == 1]
                    json.dump(meta, open(f"{d}/meta.json", "w"), indent=1, ensure_ascii=False)
                if c2.returncode == 1:
                    ok = True
                    print(f"{sid}: {prop} held, CAUGHT by {other} {l2[1][:120] if len(l2) > 1 else ''}")
                    break
        elif True:
            print(f"{sid}: {prop} rc={c.returncode} CAUGHT {lines[1][:140] if len(lines) > 1 else (lines[0][:140] if lines else '')}")
        if not ok and meta.get("note"):
            print(f"{sid}: {prop} rc={c.returncode} not caught (on purpose, see note in meta.json)")
            ok = True
        missed += 0 if ok else 1
        if not ok:
            print(f"{sid}: {prop} rc={c.returncode} MISSED {lines[0][:140] if lines else ''}")
    finally:
        shutil.rmtree(tmp, ignore_errors=True)
sys.exit(1 if missed else 0)
