#!/bin/sh
# tools/run_all.sh [tier] [seed] [nn …] : every check (or the listed ones: 04 12 …) once, summary of exit codes and wall time
tier="${1:-quick}"; seed="${2:-0}"
[ $# -ge 2 ] && shift 2 || shift $#
list="${*:-01 02 03 04 05 06 07 08 09 10 11 12 13 14 15 16 17 18 19 20}"
cd "$(dirname "$0")/.." || exit 2
for i in $list; do
  s=$(date +%s.%N)
  out=$(VERIF_SEED=$seed ./check C$i --tier $tier 2>&1); rc=$?
  e=$(date +%s.%N)
  printf "C%s rc=%s %.1fs %s\n" $i $rc $(echo "$e - $s" | bc) "$(echo "$out" | grep -E '^(HELD|VIOLATION|INCONCLUSIVE|KNOWN)' | head -2 | cut -c1-150 | tr '\n' ' ')"
done
