#!/venv/bin/python
"""Writes /verif/MANIFEST.json from the per-property modules (single source of truth for ids and rules)."""
import json, os, sys
sys.path.insert(0, "/verif")
os.environ.setdefault("AWVERIF_REPO", "/repo")

LEVEL_TEXT = {
 "C01": "Held-on-observed: every generated event written through each backend is read back (listing + lookup) and compared exactly in integer microseconds / canonical JSON; every caller-side object is then mutated and all reads repeated. Exploration is the right level: the quantifier is over ~10^15 instants x arbitrary JSON, reach comes from the generators' deliberate mass on float breakpoints, sub-ms parts and offsets.",
 "C02": "Held-on-observed: a dict model is stepped in lock-step with the real store and the WHOLE observable state of every bucket is compared after every operation of generated hostile histories (ties, nesting, zero-length, delete/upsert interleavings) on all three backends.",
 "C03": "Held-on-observed: every windowed read and count is judged against must/may sets computed in integer microseconds with the statement's own 2 ms edge tolerance; edges are placed on, 1 us, 1 ms and 3 ms around event edges on purpose.",
 "C04": "Held-on-observed: frame condition checked around every single operation (full dump of all other buckets before/after), with ids taken from other buckets (integer and string form), creates of buckets that exist, and instants that coincide across buckets.",
 "C05": "Held-on-observed: dict model of the bucket map stepped with generated lifecycle histories incl. operations on missing ids and delete/re-create cycles, store reopened mid-history, the caller editing the dicts it passed in and was handed; listing, metadata and event content compared after every step.",
 "C06": "Fault enumeration: the committed state is read through a second read-only connection at EVERY SQL statement boundary and operation return of each generated history (= every process-death point between statements), and real child processes are SIGKILLed / _exit / exit at chosen statements and the reopened file judged the same way. Prefix, no-split, monotonicity, durability-on-return and the <=64 lost-writes bound are decided per crash point.",
 "C07": "Held-on-observed: after every heartbeat of generated streams fed through the standard loop, the bucket is compared with heartbeat_reduce of the prefix (real transform and integer reference) and the neighbouring buckets with their initial dump.",
 "C08": "Held-on-observed: monitor at the boundary of heartbeat_merge / heartbeat_reduce compares every call with an integer-microsecond restatement of the hull rule and the stated normal-form laws.",
 "C09": "Held-on-observed: monitors at filter_period_intersect / period_union compare each result with set-algebra over integer intervals (independent of the timeslot library); a third of the direct cases call a second time on the same objects after one was changed through the public setters.",
 "C10": "Held-on-observed: monitor at flood checks the stated cover laws (per-label cover kept, new cover == exactly the short gaps, output disjoint and positive) on generated sequences with gaps at pulsetime +-1 ms and events that end between milliseconds.",
 "C11": "Held-on-observed: generated ASTs are printed (twice, different spacing) and evaluated by the real interpreter; value AND the call trace recorded at the built-in registry are compared with a reference evaluator working on the AST; the recorder also compares the values handed to every built-in before and after the call.",
 "C12": "Held-on-observed: full dump of all buckets before/after every generated query (incl. failing and in-place-mutating ones) on each backend - data of minutes, of a year, of ~2700 tied events, and around the present moment, windows up to centuries wide; query_bucket / eventcount results recorded at the registry compared with direct windowed reads; queries that fail inside the store's own read are judged against the acknowledged writes, not against a (flushing) dump.",
 "C13": "Held-on-observed; the millisecond floor is checked for ALL 10^6 microsecond values (exhaustive in that dimension) on several base instants/offsets and both input representations, plus random representations (zone-aware datetimes near DST transitions, both folds of a repeated clock reading)/durations/ids with schema validation and three rebuild paths.",
 "C14": "Held-on-observed: real legacy databases built by PeeweeStorage in a private XDG_DATA_HOME, migrated by constructing the default SqliteStorage; bucket sets, metadata, event multisets and the legacy file hash compared.",
 "C15": "Held-on-observed: monitor at union_no_overlap compares each result with interval subtraction/union in integer microseconds.",
 "C16": "Held-on-observed: monitors at the six functions check bijection with key-presence/value groups, exact duration sums, run structure, permutation+order, prefix and complementary sub-sequences.",
 "C17": "Held-on-observed: hundreds of thousands of random, corrupted, targeted, long and single-fault texts run under an activation budget (sys.monitoring PY_START in aw_query/) and a processor-time budget with outcome-class checks; scope of 'escaped' decided structurally from the traceback; stack-limit sweeps judge every nesting depth around the point where the interpreter's stack runs out (located by bisection, mostly under a reduced stack limit).",
 "C18": "Fault enumeration of the 'crash right after a write returns' point: 32 real 12-15 second pauses per quick run (19 scenarios incl. a reopened store and an empty bucket; ground truth through an observer connection) plus thousands of virtual-clock schedules that count only when the virtual twin of the real scenario agrees with real time.",
 "C19": "Held-on-observed: monitors at categorize / tag / split_url_events / simplify_string check the frame condition (same events, order, time, unrelated data) and the stated matching rule against an independent matcher built from the rule dicts.",
 "C20": "Held-on-observed: generated (default, user) TOML pairs from a syntax-varying emitter; result compared with a tomllib-based reference deep merge (with explicit scalar types), user file bytes compared, first-run law over three consecutive loads.",
}
NOTE = {
 "C06": "Process death only (SIGKILL/_exit/exit); SQLite's own atomicity and the observer-connection view (validated by the real-crash tier) are trusted; no power-loss model.",
 "C18": "Same trusted base as C06; the age of a write is measured from the latest operation that may have flushed (an upper bound on the real last flush), and a late write - single event or batch - must be fully committed when its call returns.",
}
TECH = {
 "C01": "runtime monitoring: round-trip + aliasing oracle on real stores (every read shape, a second Datastore on the same file, bulk sweeps under stock SQLite statement limits)",
 "C02": "runtime monitoring: history vs executable reference model, full-state comparison after every op",
 "C03": "runtime monitoring: must/may window oracle with edge tolerance",
 "C04": "runtime monitoring: frame-condition snapshots around every operation",
 "C05": "runtime monitoring: history vs keyed-map model",
 "C06": "runtime monitoring + fault injection: SQL trace hook, observer connection at every statement boundary, real SIGKILL children",
 "C07": "runtime monitoring: per-heartbeat comparison with heartbeat_reduce and integer reference fold",
 "C08": "runtime monitoring: function-boundary monitor vs integer reference rule",
 "C09": "runtime monitoring: function-boundary monitor vs integer interval algebra",
 "C10": "runtime monitoring: function-boundary monitor vs interval cover laws",
 "C11": "runtime monitoring: registry call-trace recorder (incl. each built-in's arguments and the program's namespace before/after the call) + reference evaluator + metamorphic spacing",
 "C12": "runtime monitoring: store dumps around queries + registry result recorder",
 "C13": "runtime monitoring: exhaustive microsecond sweep + randomized representation oracle + schema validation",
 "C14": "runtime monitoring: end-to-end migration in private XDG dirs, content and file-hash oracle",
 "C15": "runtime monitoring: function-boundary monitor vs integer interval algebra",
 "C16": "runtime monitoring: function-boundary monitors with conservation oracles",
 "C17": "runtime monitoring: outcome classifier + sys.monitoring activation budget + ITIMER_VIRTUAL processor-time budget + traceback scope rule + stack-limit sweeps under a reduced recursion limit",
 "C18": "runtime monitoring + fault injection: real sleeps, calibrated virtual clock, observer connection after each write",
 "C19": "runtime monitoring: function-boundary monitors, frame condition + independent rule matcher",
 "C20": "runtime monitoring: reference deep merge (tomllib) + file-bytes oracle",
}
props = [json.loads(l) for l in open("/verif/properties.jsonl")]
checks = []
import importlib
for p in props:
    pid = p["id"]
    mod = importlib.import_module(f"awverif.props.{pid.lower()}")
    level = getattr(mod, "LEVEL", "exploration")
    checks.append(dict(
        property_id=pid,
        quick_cmd=f"./check {pid} --tier quick",
        thorough_cmd=f"./check {pid} --tier thorough",
        evidence_file=f"/verif/evidence/{pid}.json",
        replay_cmd_template=f"./check {pid} --replay {{path}}",
        engine="awverif",
        level_claimed=dict(category=level, text=LEVEL_TEXT[pid], design_ref=f"DESIGN.md section 4, {pid}"),
        level_note=NOTE.get(pid, "Decides only the executions produced; trusted: CPython 3.12, SQLite, and the stdlib / third-party libraries the oracle itself uses (json, re, tomllib, jsonschema, iso8601). " + "; ".join(getattr(mod, "ASSUMPTIONS", []))),
        technique=TECH[pid],
    ))
manifest = dict(
    version=1,
    setup_cmd="./setup.sh",
    hooks=dict(
        guard="AW_CORE_VERIF",
        enable="no repository hooks are needed: every monitor attaches from outside (function wrappers installed by the harness, sqlite3 set_trace_callback, a second read-only connection, sys.monitoring); the variable is reserved and currently unused",
        baseline_off_cmd="cd /repo && /venv/bin/python -m pytest -ra -q -p no:cacheprovider --timeout=900 --continue-on-collection-errors",
        source_commits=[],
        add_only=True,
    ),
    engines=[dict(name="awverif", path="/verif/awverif", serves_properties=[p["id"] for p in props],
                  kind_free_text="runtime monitoring framework: seeded workload generators, reference models, function-boundary monitors, SQL trace hook + observer connection, crash injector, virtual clock, activation budget; 16 worker processes per check")],
    checks=checks,
    notes="Exit codes: 0 held on everything explored, 1 VIOLATION (replay file written), 2 INCONCLUSIVE (deciding monitor not reached / watchdog / harness error). VERIF_SEED seeds every random choice. Genuine defects found and repaired are listed in known_findings.json (all 'fixed'; they suppress nothing).",
    not_applicable=[],
)
json.dump(manifest, open("/verif/MANIFEST.json", "w"), indent=1, ensure_ascii=False)
open("/verif/MANIFEST.json", "a").write("\n")
import jsonschema
jsonschema.validate(manifest, json.load(open("/root/.vp/MANIFEST.schema.json")))
print("MANIFEST ok,", len(checks), "checks")
