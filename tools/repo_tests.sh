#!/bin/sh
# the repository's own pinned suite (guard off), as in /root/.vp/BASELINE.json
cd /repo && exec /venv/bin/python -m pytest -ra -q -p no:cacheprovider --timeout=900 --continue-on-collection-errors "$@"
