#!/venv/bin/python
"""Self-validation helper: copy /repo to a scratch dir, apply textual replacements (or a patch),
run checks against the copy via AWVERIF_REPO, remove the copy.

  tools/mutant.py [--tests] [--tier quick] -r FILE 'OLD' 'NEW' [-r ...] [--patch P] -- C08 C07 ...
"""
import argparse, os, shutil, subprocess, sys, tempfile

ap = argparse.ArgumentParser()
ap.add_argument("-r", nargs=3, action="append", default=[], metavar=("FILE", "OLD", "NEW"))
ap.add_argument("--patch", action="append", default=[])
ap.add_argument("--tests", action="store_true", help="also run the repository's own suite on the copy")
ap.add_argument("--tier", default="quick")
ap.add_argument("--seed", default="0")
ap.add_argument("checks", nargs="*")
a = ap.parse_args()
verif = os.path.dirname(os.path.dirname(os.path.abspath(__file__)))
tmp = tempfile.mkdtemp(prefix="awmut-", dir="/tmp")
try:
    dst = os.path.join(tmp, "repo")
    shutil.copytree("/repo", dst, ignore=shutil.ignore_patterns(".git", "__pycache__", ".pytest_cache"))
    for f, old, new in a.r:
        p = os.path.join(dst, f)
        s = open(p).read()
        if s.count(old) < 1:
            sys.exit(f"pattern not found in {f}: {old!r}")
        open(p, "w").write(s.replace(old, new, 1))
    for pt in a.patch:
        subprocess.run(["patch", "-p1", "-s", "-d", dst, "-i", os.path.abspath(pt)], check=True)
    if a.tests:
        r = subprocess.run(["/venv/bin/python", "-m", "pytest", "-q", "-x", "-p", "no:cacheprovider", "--timeout=900"],
                           cwd=dst, env=dict(os.environ, PYTHONPATH=dst, PYTHONDONTWRITEBYTECODE="1"),
                           capture_output=True, text=True)
        print("TESTS:", r.stdout.strip().splitlines()[-1] if r.stdout.strip() else r.stderr[-300:])
    rc_all = {}
    for c in a.checks:
        r = subprocess.run([os.path.join(verif, "check"), c, "--tier", a.tier],
                           env=dict(os.environ, AWVERIF_REPO=dst, VERIF_SEED=a.seed), capture_output=True, text=True)
        lines = [l for l in r.stdout.splitlines() if l.startswith(("VIOLATION", "HELD", "INCONCLUSIVE", "KNOWN", "  kind"))]
        print(f"[{c}] rc={r.returncode}", *lines[:5], sep="\n   ")
        rc_all[c] = r.returncode
finally:
    shutil.rmtree(tmp, ignore_errors=True)
    # replays/evidence written by mutant runs are not evidence about /repo
