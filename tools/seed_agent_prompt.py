"""Prints the prompt given to a fresh sub-agent that is asked for a property-breaking change (property text only)."""
import json
import sys


def _prop(pid):
    for l in open("/verif/properties.jsonl"):
        p = json.loads(l)
        if p["id"] == pid:
            return (f"{p['id']}: {p['title']}\n\nStatement: {p['statement']}\n\nQuantifier: {p['quantifier']['text']}\n\n"
                    f"Code the property is anchored in: {', '.join(p['anchors']['files'])}\n")
    raise SystemExit(f"no property {pid}")


pid=sys.argv[1]; d=f"/tmp/seed-{pid}" if len(sys.argv)<3 else sys.argv[2]
prop=_prop(pid)
print(f"""You are working in a scratch git worktree of the Python library ActivityWatch/aw-core at {d} (a detached checkout). Work ONLY inside {d}. Do NOT modify /repo, and do NOT read or use anything under /verif (it is off limits for this task). No network is available.

Interpreter: /venv/bin/python (has all dependencies). IMPORTANT: the library is installed in /venv in editable mode pointing at /repo, so to import YOUR worktree you must put it first on the path:
  cd {d} && PYTHONPATH={d} /venv/bin/python -m pytest -q -p no:cacheprovider        # the project's own test-suite (156 tests, ~15 s)
  PYTHONPATH={d} /venv/bin/python -c 'import aw_core, aw_datastore; print(aw_core.__file__)'   # must print a path under {d}
Tests and demos that use default data/config locations should set XDG_DATA_HOME / XDG_CONFIG_HOME / HOME to a fresh temporary directory; database files should live under a tempfile directory, never in your home.

Here is a semantic property that the library is supposed to satisfy (and currently does, as far as is known):

{prop}
YOUR TASK: produce ONE realistic change to the library source code (aw_core/, aw_datastore/, aw_transform/ or aw_query/ — not the tests) that BREAKS this property while
  (a) the code still imports and runs, and
  (b) the ENTIRE existing test-suite still passes with your change applied (same 156 passed / 2 skipped as without it).
The change must look like something a developer could plausibly commit — a refactoring, an optimisation, a tidy-up, a 'simplification', a well-meant fix — not sabotage that special-cases magic values. And it must need something SPECIFIC to manifest: a particular multi-step sequence of operations, a particular interleaving or ordering, a crash or fault at a particular point, an unusual-but-legal input (within the property's stated domain), or two cooperating code sites that each look fine alone. A change that ordinary everyday use would expose at once is NOT wanted. Prefer subtle over blunt.

Also write a small demonstration program {d}/demo.py (a standalone script using only the library's public API plus the standard library; it must import the library normally, i.e. rely on PYTHONPATH) that checks the property on the specific situation your change breaks: exit code 0 and a line 'OK ...' when the property holds, exit code 1 and a line 'VIOLATED ...' describing what it observed when it does not. Verify BOTH directions yourself:
  - with your change applied:   PYTHONPATH={d} /venv/bin/python demo.py   -> exit 1
  - on the unchanged code (e.g. `git stash` your source change, keeping demo.py, then `git stash pop`):   -> exit 0
and verify the full test-suite passes with your change applied.

When done, LEAVE your source change applied but uncommitted in the worktree (so that `git -C {d} diff` shows exactly your change) and leave demo.py as an untracked file. Do not commit. In your final answer report: the unified diff, what exactly is needed for the breakage to manifest, why the existing tests do not notice, and the exact commands you ran with their results (test-suite summary line, demo exit codes with and without the change).""")
