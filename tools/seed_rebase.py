#!/venv/bin/python
"""tools/seed_rebase.py [ids…]: re-bases seeded patches that no longer apply to /repo HEAD (because a later fix: commit
touched nearby lines) by a three-way merge: base = the commit the patch was written for (meta.repo_head), theirs = base +
patch, ours = HEAD. Conflicts are reported and left alone. Nothing is applied to /repo."""
import glob, json, os, shutil, subprocess, sys, tempfile
ids = sys.argv[1:] or sorted(os.path.basename(os.path.dirname(p)) for p in glob.glob("/verif/seeded/*/meta.json"))
for sid in ids:
    d = f"/verif/seeded/{sid}"
    meta = json.load(open(f"{d}/meta.json"))
    if meta.get("obsolete"):
        continue
    tmp = tempfile.mkdtemp(prefix="seedb-", dir="/tmp")
    try:
        head, base = f"{tmp}/head", f"{tmp}/base"
        os.makedirs(head); os.makedirs(base)
        subprocess.run(f"git -C /repo archive HEAD | tar -x -C {head}", shell=True, check=True)
        if subprocess.run(["git", "apply", "--check", f"{d}/patch.diff"], cwd=head, capture_output=True).returncode == 0:
            continue
        subprocess.run(f"git -C /repo archive {meta['repo_head']} | tar -x -C {base}", shell=True, check=True)
        theirs = f"{tmp}/theirs"
        shutil.copytree(base, theirs)
        r = subprocess.run(["git", "apply", f"{d}/patch.diff"], cwd=theirs, capture_output=True, text=True)
        if r.returncode:
            print(f"{sid}: does not even apply to its own base {meta['repo_head']}: {r.stderr.strip()[:150]}")
            continue
        ok = True
        for f in meta["files"]:
            m = subprocess.run(["git", "merge-file", "-p", f"{head}/{f}", f"{base}/{f}", f"{theirs}/{f}"], capture_output=True, text=True)
            if m.returncode != 0:
                print(f"{sid}: CONFLICT in {f}")
                ok = False
                break
            open(f"{head}/{f}.merged", "w").write(m.stdout)
        if not ok:
            continue
        out = ""
        for f in meta["files"]:
            dd = subprocess.run(["diff", "-u", "--label", f"a/{f}", "--label", f"b/{f}", f"{head}/{f}", f"{head}/{f}.merged"], capture_output=True, text=True)
            out += f"diff --git a/{f} b/{f}\n" + dd.stdout
        open(f"{d}/patch.diff", "w").write(out)
        meta["repo_head"] = subprocess.run(["git", "-C", "/repo", "rev-parse", "--short", "HEAD"], capture_output=True, text=True).stdout.strip()
        meta.setdefault("rebased", []).append(meta["repo_head"])
        json.dump(meta, open(f"{d}/meta.json", "w"), indent=1, ensure_ascii=False)
        print(f"{sid}: rebased onto {meta['repo_head']}")
    finally:
        shutil.rmtree(tmp, ignore_errors=True)
