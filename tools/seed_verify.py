#!/venv/bin/python
"""tools/seed_verify.py <worktree> <seed-id> <property> "<needs>" [checks…]

Confirms a seeded breaking change written by a sub-agent in a scratch worktree (source change uncommitted,
demo.py untracked) and files it under /verif/seeded/<seed-id>/: patch.diff, demo.py, meta.json.
 1. the change applies to /repo's HEAD and the repository's own suite passes with it
 2. demo.py exits 1 with the change and 0 on the unchanged tree
 3. the named checks (default: the property's own) are run against the changed tree (AWVERIF_REPO)"""
import json, os, shutil, subprocess, sys, tempfile, time

wt, sid, prop, needs = sys.argv[1:5]
checks = sys.argv[5:] or [prop]
PY = "/venv/bin/python"
dst = f"/verif/seeded/{sid}"
os.makedirs(dst, exist_ok=True)
diff = subprocess.run(["git", "-C", wt, "diff"], capture_output=True, text=True, check=True).stdout
assert diff.strip(), "no source change in the worktree"
open(f"{dst}/patch.diff", "w").write(diff)
shutil.copy(f"{wt}/demo.py", f"{dst}/demo.py")
tmp = tempfile.mkdtemp(prefix="seedv-", dir="/tmp")
ran = []
try:
    clean, changed = f"{tmp}/clean", f"{tmp}/changed"
    for d in (clean, changed):
        os.makedirs(d)
        subprocess.run(f"git -C /repo archive HEAD | tar -x -C {d}", shell=True, check=True)
    subprocess.run(["git", "apply", f"{dst}/patch.diff"], cwd=changed, check=True)

    def env(root):
        home = tempfile.mkdtemp(prefix="home-", dir=tmp)
        return dict(os.environ, PYTHONPATH=root, PYTHONDONTWRITEBYTECODE="1", HOME=home, XDG_DATA_HOME=home + "/d",
                    XDG_CONFIG_HOME=home + "/c", XDG_CACHE_HOME=home + "/k")

    t = subprocess.run([PY, "-m", "pytest", "-q", "-p", "no:cacheprovider", "--timeout=900"], cwd=changed, env=env(changed),
                       capture_output=True, text=True)
    suite = (t.stdout.strip().splitlines() or ["?"])[-1]
    ran.append(dict(cmd="pytest -q (changed tree)", result=suite))
    d1 = subprocess.run([PY, f"{dst}/demo.py"], cwd=tmp, env=env(changed), capture_output=True, text=True, timeout=600)
    d0 = subprocess.run([PY, f"{dst}/demo.py"], cwd=tmp, env=env(clean), capture_output=True, text=True, timeout=600)
    ran.append(dict(cmd="demo.py (changed tree)", exit=d1.returncode, out=(d1.stdout + d1.stderr).strip()[-400:]))
    ran.append(dict(cmd="demo.py (unchanged tree)", exit=d0.returncode, out=(d0.stdout + d0.stderr).strip()[-400:]))
    results = {}
    for c in checks:
        t0 = time.time()
        r = subprocess.run(["/verif/check", c, "--tier", "quick"], env=dict(os.environ, AWVERIF_REPO=changed, VERIF_SEED="0"),
                           capture_output=True, text=True)
        lines = [l for l in r.stdout.splitlines() if l.startswith(("VIOLATION", "HELD", "INCONCLUSIVE", "  kind"))]
        results[c] = dict(exit=r.returncode, wall_s=round(time.time() - t0, 1), first_lines=[l[:300] for l in lines[:4]])
    ok = ("156 passed" in suite) and d1.returncode == 1 and d0.returncode == 0
    meta = dict(id=sid, breaks_property=prop, needs_to_manifest=needs, files=sorted({l[6:] for l in diff.splitlines() if l.startswith("+++ b/")}),
                written_by="independent sub-agent given only the property text and a scratch worktree of /repo",
                confirmed=ok, repo_head=subprocess.run(["git", "-C", "/repo", "rev-parse", "--short", "HEAD"], capture_output=True, text=True).stdout.strip(),
                what_i_ran=ran, checks_quick_seed0=results,
                caught_by=[c for c, r in results.items() if r["exit"] == 1])
    json.dump(meta, open(f"{dst}/meta.json", "w"), indent=1, ensure_ascii=False)
    print(json.dumps(dict(confirmed=ok, suite=suite, demo_changed=d1.returncode, demo_clean=d0.returncode,
                          checks={c: (r["exit"], r["first_lines"][:2]) for c, r in results.items()}), indent=1)[:3000])
finally:
    shutil.rmtree(tmp, ignore_errors=True)
