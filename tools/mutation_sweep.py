#!/venv/bin/python
"""tools/mutation_sweep.py [--per-file N] [--seed S] [--jobs J] [--out FILE] [files…]

A systematic complement to the hand-written seeded changes: small syntactic changes (one per scratch copy) to the files the
properties are anchored in. For each one
  1. the repository's own suite is run on the scratch copy - a change it notices is of no interest here ("killed by the suite");
  2. otherwise the quick tier (seed 0) of every check anchored in that file is run against the copy, until one reports a
     violation ("caught by Cnn"); if none does the change is listed as "not caught" (it may well be equivalent).
Nothing is ever applied to /repo; every scratch copy lives under /tmp and is removed at once."""
import argparse, ast, concurrent.futures as cf, copy, glob, importlib, json, os, random, shutil, subprocess, sys, tempfile, time

sys.path.insert(0, "/verif")
PY = "/venv/bin/python"


def anchors():
    out = {}
    for p in sorted(glob.glob("/verif/awverif/props/c[0-9][0-9].py")):
        src = open(p).read()
        pid = os.path.basename(p)[:3].upper()
        t = ast.parse(src)
        for n in t.body:
            if isinstance(n, ast.Assign) and getattr(n.targets[0], "id", "") == "ANCHOR_FILES":
                for f in ast.literal_eval(n.value):
                    out.setdefault(f, []).append(pid)
    # the Event model and the Datastore wrappers sit under every store / transform property: their own checks first
    out.setdefault("aw_core/models.py", [])
    for pid in ("C13", "C01", "C08"):
        if pid not in out["aw_core/models.py"]:
            out["aw_core/models.py"].append(pid)
    out.setdefault("aw_datastore/datastore.py", [])
    for pid in ("C03", "C05", "C02"):
        if pid not in out["aw_datastore/datastore.py"]:
            out["aw_datastore/datastore.py"].append(pid)
    return out


CMP = {ast.Lt: ast.LtE, ast.LtE: ast.Lt, ast.Gt: ast.GtE, ast.GtE: ast.Gt, ast.Eq: ast.NotEq, ast.NotEq: ast.Eq,
       ast.In: ast.NotIn, ast.NotIn: ast.In, ast.Is: ast.IsNot, ast.IsNot: ast.Is}
BIN = {ast.Add: ast.Sub, ast.Sub: ast.Add}


def sites(tree):
    """(kind, node, description) for every place one small change can be made"""
    out = []
    skip = set()
    for node in ast.walk(tree):
        # in-module self tests and calls that only log are not behaviour any property speaks about
        if isinstance(node, (ast.FunctionDef, ast.AsyncFunctionDef)) and node.name.startswith("test_"):
            skip.update(id(x) for x in ast.walk(node))
        if isinstance(node, ast.Expr) and isinstance(node.value, ast.Call):
            fn = ast.unparse(node.value.func)
            if fn.split(".")[0] in ("logger", "logging", "warnings") or ".logger." in fn or fn.startswith("self.logger"):
                skip.update(id(x) for x in ast.walk(node))
    for node in ast.walk(tree):
        if id(node) in skip:
            continue
        if isinstance(node, ast.Compare):
            for i, op in enumerate(node.ops):
                if type(op) in CMP:
                    out.append(("compare", node, i))
        elif isinstance(node, ast.BinOp) and type(node.op) in BIN:
            out.append(("binop", node, None))
        elif isinstance(node, ast.BoolOp):
            out.append(("boolop", node, None))
        elif isinstance(node, ast.UnaryOp) and isinstance(node.op, ast.Not):
            out.append(("not", node, None))
        elif isinstance(node, ast.Constant) and isinstance(node.value, bool):
            out.append(("bool", node, None))
        elif isinstance(node, ast.Constant) and isinstance(node.value, int) and 0 <= node.value <= 10**7:
            out.append(("int", node, None))
        elif isinstance(node, ast.Expr) and isinstance(node.value, ast.Call):
            out.append(("drop-call", node, None))
        elif isinstance(node, ast.If) and not node.orelse:
            out.append(("if-always", node, None))
    return out


def mutate(src, index):
    tree = ast.parse(src)
    ss = sites(tree)
    kind, node, extra = ss[index]
    line = getattr(node, "lineno", 0)
    before = ast.unparse(node)[:90]
    if kind == "compare":
        node.ops[extra] = CMP[type(node.ops[extra])]()
    elif kind == "binop":
        node.op = BIN[type(node.op)]()
    elif kind == "boolop":
        node.op = ast.Or() if isinstance(node.op, ast.And) else ast.And()
    elif kind == "not":
        # `not x` -> `x`: replace in the parent by copying fields
        operand = node.operand
        node.__class__ = operand.__class__
        node.__dict__.clear()
        node.__dict__.update(operand.__dict__)
    elif kind == "bool":
        node.value = not node.value
    elif kind == "int":
        node.value = node.value + 1
    elif kind == "drop-call":
        node.value = ast.Constant(value=None)
    elif kind == "if-always":
        node.test = ast.Constant(value=True)
    ast.fix_missing_locations(tree)
    after = ast.unparse(node)[:90] if kind != "drop-call" else "(statement dropped)"
    return ast.unparse(tree), dict(kind=kind, line=line, before=before, after=after)


def run_one(job):
    f, index, checks = job
    tmp = tempfile.mkdtemp(prefix="awsweep-", dir="/tmp")
    res = dict(file=f, index=index)
    try:
        subprocess.run(f"git -C /repo archive HEAD | tar -x -C {tmp}", shell=True, check=True)
        path = os.path.join(tmp, f)
        src = open(path).read()
        try:
            new, info = mutate(src, index)
            compile(new, f, "exec")
        except Exception as ex:  # noqa: BLE001
            res.update(outcome="not-applicable", why=f"{type(ex).__name__}: {ex}")
            return res
        res.update(info)
        open(path, "w").write(new)
        home = os.path.join(tmp, ".home")
        os.makedirs(home)
        env = dict(os.environ, PYTHONPATH=tmp, PYTHONDONTWRITEBYTECODE="1", HOME=home, XDG_DATA_HOME=home + "/d", XDG_CONFIG_HOME=home + "/c",
                   XDG_CACHE_HOME=home + "/k")
        try:
            t = subprocess.run([PY, "-m", "pytest", "-q", "-x", "-p", "no:cacheprovider", "--timeout=120"], cwd=tmp, env=env,
                               capture_output=True, text=True, timeout=600)
            last = (t.stdout.strip().splitlines() or ["?"])[-1]
        except subprocess.TimeoutExpired:
            res.update(outcome="killed-by-the-suite", suite="timeout")
            return res
        if t.returncode != 0:
            res.update(outcome="killed-by-the-suite", suite=last[:120])
            return res
        res["suite"] = last[:80]
        res["checks"] = {}
        for c in checks:
            r = subprocess.run(["/verif/check", c, "--tier", "quick"], env=dict(os.environ, AWVERIF_REPO=tmp, VERIF_SEED="0"),
                               capture_output=True, text=True)
            lines = [l for l in r.stdout.splitlines() if l.startswith(("VIOLATION", "HELD", "INCONCLUSIVE", "  kind"))]
            res["checks"][c] = dict(exit=r.returncode, first=[l[:200] for l in lines[:2]])
            if r.returncode == 1:
                res.update(outcome=f"caught-by-{c}")
                return res
        res.update(outcome="not-caught")
        return res
    finally:
        shutil.rmtree(tmp, ignore_errors=True)


def main():
    ap = argparse.ArgumentParser()
    ap.add_argument("--per-file", type=int, default=8)
    ap.add_argument("--seed", type=int, default=0)
    ap.add_argument("--jobs", type=int, default=2)
    ap.add_argument("--out", default="/verif/mutation/sweep.jsonl")
    ap.add_argument("files", nargs="*")
    a = ap.parse_args()
    amap = anchors()
    files = a.files or sorted(amap)
    rng = random.Random(a.seed)
    jobs = []
    for f in files:
        src = open(os.path.join("/repo", f)).read()
        n = len(sites(ast.parse(src)))
        for index in rng.sample(range(n), min(n, a.per_file)):
            jobs.append((f, index, amap.get(f, [])))
    os.makedirs(os.path.dirname(a.out), exist_ok=True)
    done = set()
    if os.path.exists(a.out):
        for line in open(a.out):
            d = json.loads(line)
            done.add((d["file"], d["index"]))
    jobs = [j for j in jobs if (j[0], j[1]) not in done]
    print(f"{len(jobs)} changes to try ({len(done)} already recorded)", flush=True)
    with cf.ThreadPoolExecutor(a.jobs) as ex, open(a.out, "a") as out:
        for res in ex.map(run_one, jobs):
            out.write(json.dumps(res) + "\n")
            out.flush()
            print(f"{res['file']}:{res.get('line', '?')} {res.get('kind', '')} {res.get('before', '')!r} -> {res.get('after', '')!r}: {res['outcome']}", flush=True)


if __name__ == "__main__":
    main()
