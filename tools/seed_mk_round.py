import glob, json, subprocess, sys
pid, tag = sys.argv[1], sys.argv[2]
d = f"/tmp/{tag}-{pid}"
subprocess.run(["git", "-C", "/repo", "worktree", "add", "-q", "--detach", d, "HEAD"], check=True)
prompt = subprocess.run(["/venv/bin/python", "/verif/tools/seed_agent_prompt.py", pid, d], capture_output=True, text=True).stdout
prev = []
for f in sorted(glob.glob("/verif/seeded/*/meta.json")):
    m = json.load(open(f))
    if m["breaks_property"] == pid:
        prev.append(f"- ({', '.join(m['files'])}) {m['needs_to_manifest']}")
extra = sys.argv[3] if len(sys.argv) > 3 else ""
if prev:
    prompt += "\nNOTE: other contributors already produced the following changes for this property. Do NOT repeat any of them or a close variant; find a DIFFERENT mechanism, preferably in a different function / backend / code path:\n" + "\n".join(prev) + "\n"
if extra:
    prompt += "\nADDITIONAL DIRECTION: " + extra + "\n"
open(f"/tmp/prompt-{tag}-{pid}.txt", "w").write(prompt)
print(d, len(prev))
