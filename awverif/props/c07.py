"""C07 — heartbeat ingestion through the store equals heartbeat_reduce of the stream."""
import copy
from collections import Counter
from datetime import timedelta

from ..backends import BACKENDS, Store
from ..gen import canon, dt_us, floor_ms, maybe_zone, mk_event, rand_grid, td_us
from ..model import ref_heartbeat_merge, ref_reduce
from ._st import dump_store, obs
from ._tx import tmod

ID = "C07"
LEVEL = "exploration"
ANCHOR_FILES = ["aw_datastore/storages/memory.py", "aw_datastore/storages/sqlite.py", "aw_datastore/storages/peewee.py",
                "aw_transform/heartbeats.py"]
REQUIRED_COUNTERS = ["heartbeats.memory", "heartbeats.sqlite", "heartbeats.peewee", "merges", "inserts"]
RULE = ("heartbeat streams of 1-40 heartbeats with strictly increasing timestamps and non-decreasing end instants "
        "(zero and positive durations, repeated/alternating data - equal data sometimes with its keys in another order -, gaps below/at/above the pulsetime, zero-length "
        "heartbeats whose end ties with the previous event's end) × pulsetimes {0, fractional, large}, fed through "
        "get(limit=1) -> heartbeat_merge -> replace_last | insert on each backend, in a store that also holds 1-2 "
        "other buckets (created before and after) whose events start and end at the stream's own instants, some of them "
        "written while the stream is being fed; now and then an accepted bucket-management call or read between two heartbeats (metadata updates of the stream's own bucket and of another one, a scratch bucket created, filled and deleted, counts / lookups / a second Bucket wrapper) or one that the store refuses (delete / update of a missing bucket, create of an existing one) between two heartbeats; some streams keep one activity alive for more than a day (merged duration > 24 h); in a quarter of the cases the "
        "bucket is deleted and re-created mid-stream and the stream carries on; after EVERY "
        "heartbeat the bucket is compared with heartbeat_reduce(prefix) (real transform and integer reference) and "
        "the other buckets with their initial dump; evaluations = heartbeats; non-trivial = stream has a merge and a "
        "non-merge and an end-tie or a coinciding instant elsewhere; signature = (backend, decision-string class, "
        "end-tie, other bucket before/after, pulse class)")
ASSUMPTIONS = ["stream instants are millisecond aligned (Event floors them anyway)"]


def plan(tier):
    return dict(workers=16, cases=90_000 if tier == "quick" else 3_000_000, time_s=45 if tier == "quick" else 900)


_DATA = [{"status": "not-afk"}, {"status": "afk"}, {"app": "x", "title": "ü", "n": [1, 2.5]}, {}]


def gen_case(rng, ctx):
    backend = BACKENDS[rng.randrange(3)]
    base, unit = rand_grid(rng)
    if unit > 10**6:
        unit = 10**6
    base, unit, zone = maybe_zone(rng, base, unit, 0.04)
    pu = rng.choice([0, 1000, 1500, unit, 2 * unit, 5 * unit, 60 * 10**6, 10**9])
    p_float = None
    if rng.random() < 0.08:
        # a pulsetime that is not a whole number of microseconds (the window is what timedelta(seconds=p) makes of it)
        p_float = rng.choice([2 / 3, 1 / 3, 0.1 + 0.2, 1 / 7, 3.141592653589793, 1.0000004, 2.9999996, 10 / 3])
        pu = td_us(timedelta(seconds=p_float))
    n = rng.randrange(1, 41)
    marathon = rng.random() < 0.08
    if marathon:
        # one activity kept alive for more than a day: the merged event's duration grows past 24 h
        unit, pu, n = 3600 * 10**6, 2 * 3600 * 10**6, rng.randrange(26, 41)
    stream = []
    ts = base
    end_prev = base
    data = rng.choice(_DATA)
    mode = rng.choice(["repeat", "alternate", "random"])
    for i in range(n):
        if marathon:
            stream.append(dict(ts=ts, dur=rng.choice([0, 10 * 10**6, 10 * 10**6 + 1]), data=_DATA[0] if i < n - 3 else rng.choice(_DATA[:2])))
            end_prev = max(end_prev, ts + stream[-1]["dur"])
            ts += unit
            continue
        if mode == "alternate":
            data = _DATA[i % 2]
        elif mode == "random" or rng.random() < 0.2:
            data = rng.choice(_DATA)
        r = rng.random()
        if r < 0.3:
            dur = max(0, end_prev - ts)                      # ends exactly where the previous one ended (tie)
        elif r < 0.5:
            dur = max(0, end_prev - ts) + rng.choice([0, 1000, unit])
        else:
            dur = max(0, end_prev - ts) + rng.randrange(0, 4) * unit + rng.choice([0, 0, 1, 999])
        dur = max(dur, 0)
        if rng.random() < 0.15:
            dur += (-(ts + dur + pu)) % 1000        # end + pulsetime on a whole millisecond: the next heartbeat can sit exactly on the edge
        stream.append(dict(ts=ts, dur=dur, data=dict(reversed(list(data.items()))) if len(data) > 1 and rng.random() < 0.3 else data))
        end_prev = max(end_prev, ts + dur)
        r = rng.random()
        if r < 0.25:
            nxt = end_prev                                   # starts exactly at the previous end
        elif r < 0.6:
            nxt = end_prev + pu + rng.choice([0, 0, 1000, -1000, 2000, -2000])   # around the pulse boundary
        elif r < 0.8:
            nxt = ts + rng.choice([1000, unit])
        elif r < 0.83:
            # far beyond the pulsetime, but by whole days / hours plus a remainder around it
            nxt = end_prev + rng.choice([86400, 2 * 86400, 3600]) * 10**6 + rng.choice([0, 1000, pu, pu // 2])
        else:
            nxt = end_prev + pu + rng.randrange(1, 5) * unit
        ts = max(ts + 1000, floor_ms(nxt))
    ends = [s["ts"] + s["dur"] for s in stream]
    starts = [s["ts"] for s in stream]
    others = []
    for j in range(rng.choice([1, 1, 2])):
        def other_event(k):
            if rng.random() < 0.5:
                # starts at exactly the instant of a heartbeat (and may end where one ends)
                s0 = rng.choice(starts)
                later = [x for x in ends if x >= s0]
                e0 = rng.choice(later) if later and rng.random() < 0.6 else s0 + rng.choice([0, 1000, unit])
                return dict(ts=s0, dur=e0 - s0, data={"other": j, "k": k})
            e = rng.choice(ends)
            s = e - rng.choice([0, 1000, unit, 3 * unit])
            return dict(ts=floor_ms(max(0, s)), dur=e - floor_ms(max(0, s)), data={"other": j, "k": k})
        evs = [other_event(k) for k in range(rng.randrange(0, 4))]
        # events written to the other bucket WHILE the stream is being fed (they get higher row ids than the
        # heartbeat bucket's events that exist by then)
        late = [dict(after=rng.randrange(0, n), ev=other_event(100 + k), with_ids=rng.random() < 0.3) for k in range(rng.randrange(0, 4))]
        others.append(dict(when=rng.choice(["before", "after"]), evs=evs, late=late))
    # the watcher's bucket may be deleted and re-created mid-stream (the watcher simply carries on)
    if zone:
        for s_ in stream:
            if rng.random() < 0.7:
                s_["zone"] = zone
    recreate_at = rng.randrange(1, n) if n > 1 and rng.random() < 0.25 else None
    # bucket-management calls that the store refuses, issued between two heartbeats (after the write, before the next read)
    faults = {str(rng.randrange(0, n)): rng.choice(["delete_missing_bucket", "create_existing", "update_missing_bucket"])
              for _ in range(rng.choice([0, 0, 1, 2]))}
    # bucket-management calls and reads the store accepts, issued between two heartbeats: none of them is a write to
    # the stream's events
    benign = {str(rng.randrange(0, n)): rng.choice(_BENIGN) for _ in range(rng.choice([0, 0, 1, 2, 3]))}
    return dict(backend=backend, stream=stream, pulse_us=pu, others=others, recreate_at=recreate_at, faults=faults,
                benign=benign, p_float=p_float)


_BENIGN = ["update_hb_name", "update_hb_data", "update_hb_type", "update_hb_client_hostname", "update_hb_data_empty",
           "update_other", "scratch_bucket", "reads", "second_wrapper_reads"]


def _benign(ds, b, what, k):
    if what == "update_hb_name":
        ds.update_bucket("hb", name=f"renamed-{k}")
    elif what == "update_hb_data":
        ds.update_bucket("hb", data={"edited": k, "nested": {"k": [k]}})
    elif what == "update_hb_data_empty":
        ds.update_bucket("hb", data={})
    elif what == "update_hb_type":
        ds.update_bucket("hb", type_id=f"type-{k}")
    elif what == "update_hb_client_hostname":
        ds.update_bucket("hb", client=f"client-{k}", hostname=f"host-{k}")
    elif what == "update_other":
        ds.update_bucket("other-0", name=f"other-renamed-{k}", data={"k": k})
    elif what == "scratch_bucket":
        sb = ds.create_bucket("scratch", type="t", client="c", hostname="h", data={"x": 1})
        sb.insert(mk_event(dict(ts=k * 1000, dur=1000, data={"scratch": k})))
        ds.delete_bucket("scratch")
    elif what == "reads":
        b.metadata(); ds.buckets(); b.get_eventcount()
        for e in b.get(3):
            got = b.get_by_id(e.id)
            # what a reader does with the events it was handed is its own business (an activity view annotates them in place)
            for x in (e, got):
                if x is not None:
                    x.data["$category"] = ["Work"]
                    for v in x.data.values():
                        if isinstance(v, list):
                            v.append("seen")
    else:
        b2 = ds["hb"]
        b2.get(limit=1); b2.get(limit=2); b2.get_eventcount(); b2.metadata()


def _t(e):
    return (dt_us(e.timestamp), td_us(e.duration), canon(e.data))


def run_case(case, ctx):
    backend = case["backend"]
    hbm = tmod("heartbeats")
    pu = case["pulse_us"]
    p = case.get("p_float") or pu / 10**6
    if td_us(timedelta(seconds=p)) != pu:
        return [], dict(sig=("pulse-not-representable",), nontrivial=False)
    viols = []
    decisions = ""
    with Store(backend, ctx.tmp) as st:
        ds = st.ds
        for j, o in enumerate(case["others"]):
            if o["when"] == "before":
                ds.create_bucket(f"other-{j}", type="t", client="c", hostname="h")
        b = ds.create_bucket("hb", type="t", client="c", hostname="h")
        for j, o in enumerate(case["others"]):
            if o["when"] == "after":
                ds.create_bucket(f"other-{j}", type="t", client="c", hostname="h")
            if o["evs"]:
                ds[f"other-{j}"].insert([mk_event(s) for s in o["evs"]])
        others0 = dump_store(ds, skip={"hb"})
        stream = [mk_event(s) for s in case["stream"]]
        tuples = [_t(e) for e in stream]
        first = 0
        for k, hb in enumerate(stream):
            if case.get("recreate_at") == k:
                ds.delete_bucket("hb")
                b = ds.create_bucket("hb", type="t", client="c", hostname="h")
                first = k
                ctx.count("bucket_recreated_mid_stream")
            last = b.get(limit=1)
            merged = hbm.heartbeat_merge(last[0], copy.deepcopy(hb), p) if last else None
            if merged is not None:
                b.replace_last(merged)
                decisions += "m"
                ctx.count("merges")
            else:
                b.insert(copy.deepcopy(hb))
                decisions += "i"
                ctx.count("inserts")
            ctx.count(f"heartbeats.{backend}")
            fault = (case.get("faults") or {}).get(str(k))
            if fault:
                try:
                    if fault == "delete_missing_bucket":
                        ds.delete_bucket("no-such-bucket")
                    elif fault == "update_missing_bucket":
                        ds.update_bucket("no-such-bucket", name="x")
                    elif backend != "memory":      # (the memory store does not refuse it: outside every statement, not issued)
                        ds.create_bucket("hb", type="t", client="c", hostname="h")
                except Exception:  # noqa: BLE001 - refused, in whatever way
                    pass
                ctx.count("refused_bucket_operations_between_heartbeats")
            bn = (case.get("benign") or {}).get(str(k))
            if bn:
                before_edit = dump_store(ds, skip={"hb"})
                _benign(ds, b, bn, k)
                if bn == "update_other":
                    # the other bucket's description legitimately changed; its events must not have
                    now_ = dump_store(ds, skip={"hb"})
                    if {i: v[1] for i, v in now_.items()} != {i: v[1] for i, v in before_edit.items()}:
                        viols.append((f"{backend}:other-bucket-changed", f"events of another bucket changed by its metadata update after heartbeat #{k}"))
                        break
                    others0 = now_
                ctx.count("accepted_bucket_operations_between_heartbeats")
            got = Counter(t[1:] for t in (obs(e) for e in b.get(-1)))
            want_ref = ref_reduce(tuples[first:k + 1], pu)
            want_real = [_t(e) for e in hbm.heartbeat_reduce(copy.deepcopy(stream[first:k + 1]), p)]
            if got != Counter(want_ref) or got != Counter(want_real):
                miss = list((Counter(want_ref) - got).elements())[:3]
                extra = list((got - Counter(want_ref)).elements())[:3]
                kind = "bucket-differs-from-reduce"
                if len(sum(got.values()) * [0]) < len(want_ref):
                    kind = "event-lost-by-later-heartbeat"
                viols.append((f"{backend}:{kind}", f"after heartbeat #{k} ({decisions[-1]}) pulse_us={pu} missing={miss} extra={extra} "
                                                   f"reduce_real_agrees_with_ref={Counter(want_real) == Counter(want_ref)}"))
                break
            others = dump_store(ds, skip={"hb"})
            if others != others0:
                viols.append((f"{backend}:other-bucket-changed", f"after heartbeat #{k}: before={others0!r:.300} after={others!r:.300}"))
                break
            for j, o in enumerate(case["others"]):
                for lt in o.get("late", []):
                    if lt["after"] == k and lt.get("with_ids"):
                        # a bulk insert into the OTHER bucket of events that carry ids (an import of an exported bucket, whose
                        # ids also count from 1): ids that happen to be those of the stream's own events
                        mine = [e.id for e in b.get(3)]
                        batch = []
                        for i_ in mine + [None]:
                            e_ = mk_event(lt["ev"])
                            e_.id = i_
                            batch.append(e_)
                        try:
                            ds[f"other-{j}"].insert(batch)
                        except Exception:  # noqa: BLE001 - refused, in whatever way
                            pass
                        others0 = dump_store(ds, skip={"hb"})
                        ctx.count("late_other_bucket_bulk_inserts_carrying_the_streams_ids")
                    elif lt["after"] == k:
                        ds[f"other-{j}"].insert(mk_event(lt["ev"]))
                        others0 = dump_store(ds, skip={"hb"})      # the other bucket legitimately grew
                        ctx.count("late_other_bucket_inserts")
    ends = [t[0] + t[1] for t in tuples]
    end_tie = any(a == b_ for a, b_ in zip(ends, ends[1:]))
    co = any(o["evs"] or o.get("late") for o in case["others"])
    cls = ("m" in decisions, "i" in decisions[1:], "mi" in decisions, "im" in decisions[1:])
    sig = (backend, cls, end_tie, max((t[1] for t in tuples), default=0) >= 0 and any(
        (b_[0] + b_[1]) - a[0] >= 86400 * 10**6 for a, b_ in zip(tuples[:1], tuples[-1:])), tuple(sorted({o["when"] for o in case["others"]})), 0 if pu == 0 else (1 if pu < 10**7 else 2),
           case.get("recreate_at") is not None)
    nontriv = cls[0] and cls[1] and (end_tie or co)
    n = len(stream)
    return viols, dict(sig=sig, nontrivial=nontriv, weight=n)
