"""C19 — annotating transforms add their keys and leave everything else alone."""
import copy
import re

from .. import hooks
from ..gen import big_n, canon, dt_us, exact, maybe_zone, mk_event, rand_grid, td_us
from . import _tx
from ._tx import exc_viol, is_event_list, tmod, unmodified

ID = "C19"
LEVEL = "exploration"
ANCHOR_FILES = ["aw_transform/classify.py", "aw_transform/split_url_events.py", "aw_transform/simplify.py"]
REQUIRED_COUNTERS = ["monitor.categorize", "monitor.tag", "monitor.split_url_events", "monitor.simplify_string"]
RULE = ("event lists (0-8) × rule lists (0-6: overlapping regexes, equal depths, empty regex, select_keys hitting "
        "missing/non-string values, unicode, ignore_case on/off); URLs assembled from known parts; window titles with "
        "the documented prefixes; non-trivial = (categorize/tag) at least two rules match some event or a tie in depth "
        "occurs, (split) an event has a url, (simplify) a prefix is present; signature = function + per-event match "
        "pattern class + depth-tie flag / url part presence / prefix kinds")
ASSUMPTIONS = ["regexes come from a pool of valid patterns", "simplify_string is driven with string values under the key",
               "the oracle for regex matching uses Python's re (trusted)",
               "idempotence of simplify_string is not required (the statement does not claim it; '(1) (2) x' needs two passes)"]

OWN_KEYS = {
    "categorize": {"$category"},
    "tag": {"$tags"},
    "split_url_events": {"$protocol", "$domain", "$path", "$params", "$options", "$identifier"},
}


def plan(tier):
    return dict(workers=16, cases=160_000 if tier == "quick" else 4_000_000,
                time_s=30 if tier == "quick" else 500)


# ------------------------------------------------------------------ reference matcher

def ref_rule_match(spec, data):
    rx = spec.get("regex")
    if not rx:
        return False
    pat = re.compile(rx, re.IGNORECASE if spec.get("ignore_case", False) else 0)
    sk = spec.get("select_keys")
    values = [data.get(k) for k in sk] if sk else list(data.values())
    return any(isinstance(v, str) and pat.search(v) is not None for v in values)


def ref_pick_category(cats):
    best = ["Uncategorized"]
    for c in cats:
        if len(c) >= len(best):
            best = c
    return best


def _frame(label, own, old_events, result):
    """same length/order; timestamp, duration, id and every data key outside `own` unchanged"""
    if not is_event_list(result):
        return [(f"{label}-bad-result", repr(result)[:200])]
    if len(result) != len(old_events):
        return [(f"{label}-length-changed", f"in={len(old_events)} out={len(result)}")]
    for i, (o, r) in enumerate(zip(old_events, result)):
        if (dt_us(o.timestamp), td_us(o.duration), o.id) != (dt_us(r.timestamp), td_us(r.duration), r.id):
            return [(f"{label}-time-or-id-changed", f"pos={i} before={(dt_us(o.timestamp), td_us(o.duration), o.id)} "
                                                     f"after={(dt_us(r.timestamp), td_us(r.duration), r.id)}")]
        od = {k: v for k, v in o.data.items() if k not in own}
        rd = {k: v for k, v in r.data.items() if k not in own}
        if exact(od) != exact(rd):
            return [(f"{label}-unrelated-data-changed", f"pos={i} before={canon(od)[:300]} after={canon(rd)[:300]}")]
    return []


def _spec_of(rule):
    # a Rule remembers the definition it was built from (see install_rule_spy); at the level of the query language's
    # built-ins the class list still holds the definitions themselves
    return rule if isinstance(rule, dict) else getattr(rule, "_awverif_spec", None)


def pre_classes(events, classes):
    return is_event_list(events) and isinstance(classes, list) and all(
        isinstance(c, (tuple, list)) and len(c) == 2 and isinstance(_spec_of(c[1]), dict) for c in classes)


def post_categorize(old, oldkw, result, exc, after, afterkw):
    events, classes = old[0], old[1]
    if exc is not None:
        return exc_viol("categorize", exc)
    v = _frame("categorize", OWN_KEYS["categorize"], events, result)
    if v:
        return v
    for i, (o, r) in enumerate(zip(events, result)):
        data = {k: x for k, x in o.data.items()}
        matching = [c for c, rule in classes if ref_rule_match(_spec_of(rule), data)]
        want = ref_pick_category(matching)
        if r.data.get("$category") != want:
            kind = "categorize-wrong-category"
            if len(matching) >= 2 and r.data.get("$category") in matching:
                kind = "categorize-wrong-pick-among-matches"
            return [(kind, f"pos={i} data={canon(data)[:200]} matching={matching} want={want} got={r.data.get('$category')} "
                           f"rules={[(c, _spec_of(rule)) for c, rule in classes]}")]
    return []


def post_tag(old, oldkw, result, exc, after, afterkw):
    events, classes = old[0], old[1]
    if exc is not None:
        return exc_viol("tag", exc)
    v = _frame("tag", OWN_KEYS["tag"], events, result)
    if v:
        return v
    for i, (o, r) in enumerate(zip(events, result)):
        want = [c for c, rule in classes if ref_rule_match(_spec_of(rule), o.data)]
        if r.data.get("$tags") != want:
            return [("tag-wrong-tags", f"pos={i} data={canon(o.data)[:200]} want={want} got={r.data.get('$tags')} "
                                       f"rules={[(c, _spec_of(rule)) for c, rule in classes]}")]
    return []


_NICE_URL = re.compile(r"^[a-z][a-z0-9+.-]*://[A-Za-z0-9.-]*(:[0-9]+)?(/[^?#\s\[\]]*)?(\?[^#\s\[\]]*)?(#[^\s\[\]]*)?$")
_RFC3986 = re.compile(r"^(([^:/?#]+):)?(//([^/?#]*))?([^?#]*)(\?([^#]*))?(#(.*))?")


def ref_split_url(url):
    m = _RFC3986.match(url)
    scheme, netloc, path, query, frag = m.group(2) or "", m.group(4) or "", m.group(5) or "", m.group(7) or "", m.group(9) or ""
    params = ""
    last = path.rfind("/")
    semi = path.find(";", last if last >= 0 else 0)
    if semi >= 0:
        path, params = path[:semi], path[semi + 1:]
    domain = netloc[4:] if netloc.startswith("www.") else netloc
    return {"$protocol": scheme.lower(), "$domain": domain, "$path": path, "$params": params,
            "$options": query, "$identifier": frag}


def _nice(url):
    # ';params' are a feature of a few schemes only (urllib's uses_params); elsewhere ';' is not generated
    if url == "":
        return True     # (a blank tab: every part is empty)
    return isinstance(url, str) and _NICE_URL.match(url) is not None and (
        ";" not in url or url.split(":", 1)[0] in ("http", "https", "ftp"))


def pre_split(events):
    return is_event_list(events) and all(("url" not in e.data) or _nice(e.data["url"]) for e in events)


def post_split(old, oldkw, result, exc, after, afterkw):
    events = old[0]
    if exc is not None:
        return exc_viol("split", exc)
    v = _frame("split", OWN_KEYS["split_url_events"], events, result)
    if v:
        return v
    for i, (o, r) in enumerate(zip(events, result)):
        if "url" not in o.data:
            if exact(o.data) != exact(r.data):
                return [("split-touched-event-without-url", f"pos={i} before={canon(o.data)[:200]} after={canon(r.data)[:200]}")]
            continue
        want = ref_split_url(o.data["url"])
        got = {k: r.data.get(k) for k in want}
        if got != want:
            return [("split-wrong-parts", f"url={o.data['url']!r} want={want} got={got}")]
    return []


_RE_PARENS = re.compile(r"\A\([0-9]+\)\s*")
_RE_FPS = re.compile(r"FPS:\s+[0-9.]+")
_RE_DOT = re.compile(r"\A(?:●|\*)\s*")


def ref_simplify(value, key, data):
    s = _RE_PARENS.sub("", value)
    if key == "title" and "app" in data:
        s = _RE_FPS.sub("FPS: ...", s)
        s = _RE_DOT.sub("", s)
    return s


def pre_simplify(events, key="title"):
    return is_event_list(events) and isinstance(key, str) and all(isinstance(e.data.get(key), str) for e in events)


def post_simplify(old, oldkw, result, exc, after, afterkw):
    events = old[0]
    key = old[1] if len(old) > 1 else oldkw.get("key", "title")
    if exc is not None:
        return exc_viol("simplify", exc)
    v = _frame("simplify", {key}, events, result)
    if v:
        return v
    for i, (o, r) in enumerate(zip(events, result)):
        want = ref_simplify(o.data[key], key, o.data)
        if r.data.get(key) != want:
            return [("simplify-wrong-value", f"key={key} in={o.data[key]!r} want={want!r} got={r.data.get(key)!r}")]
    return unmodified("simplify", events, after[0])


MON = {}
_ORIG_RULE_INIT = []


_SPY = {}
_SPY_VIOLS = []


def _drain_spy(viols):
    if _SPY_VIOLS:
        viols = list(viols) + list(_SPY_VIOLS)
        del _SPY_VIOLS[:]
    return viols


def install_rule_spy():
    """Remember the dict each Rule was built from (so that the oracle does not trust Rule's own parsing)."""
    cl = tmod("classify")
    if _ORIG_RULE_INIT:
        return
    orig = cl.Rule.__init__

    def __init__(self, rules):
        self._awverif_spec = copy.deepcopy(rules)
        orig(self, rules)
        # the definition belongs to the caller (a query binds a class list to a variable and uses it for several calls)
        _SPY["rules_built"] = _SPY.get("rules_built", 0) + 1
        try:
            if exact(rules) != exact(self._awverif_spec) and len(_SPY_VIOLS) < 5:
                _SPY_VIOLS.append(("rule-definition-modified-by-building-the-rule",
                                   f"before={exact(self._awverif_spec)[:200]} after={exact(rules)[:200]}"))
        except Exception:  # noqa: BLE001
            pass

    _ORIG_RULE_INIT.append(orig)
    cl.Rule.__init__ = __init__


def monitors():
    install_rule_spy()
    cl = tmod("classify")
    return [(cl, "categorize", pre_classes, post_categorize), (cl, "tag", pre_classes, post_tag),
            (tmod("split_url_events"), "split_url_events", pre_split, post_split),
            (tmod("simplify"), "simplify_string", pre_simplify, post_simplify)]


def setup(ctx):
    import aw_query.functions  # noqa: F401 - its aliases of the transforms must exist before they are patched
    for m, n, pre, post in monitors():
        MON[n] = hooks.Monitor(m, n, pre, post).install()


def teardown(ctx):
    ctx.count("rules_built_under_the_spy", _SPY.get("rules_built", 0))
    for n, mon in MON.items():
        ctx.count(f"monitor.{n}", mon.evaluations)
        ctx.count(f"out_of_domain.{n}", mon.out_of_domain)
        mon.uninstall()


# ------------------------------------------------------------------ generator

_REGEX = ["fire", "Fire", "FIREFOX", "^a", "b$", "x|y", "\\d+", ".", "ü", "Ü", "[A-Z]", "a.c", "", "日本", "chrome|firefox",
          "^$", "e", "(?:git)hub", "\\bvim\\b", "ß",
          # patterns whose meaning depends on where one VALUE starts and ends (each selected value is searched on its own)
          "\\s", "\\W", "\\Aabc", "vim\\Z", "fox\\W+abc", "[^x]+$", "\\S\\s+\\S", "^VIM", "(?s)c.x", "\\n", "^xb$", "\\Axb\\Z", "c$",
          # plain words whose case-insensitive match depends on Unicode case folding (what re.IGNORECASE does), not on str.lower()
          # patterns that only mean what they say as a pattern of THEIR OWN (groups are numbered, flags are set, names are taken
          # per pattern): capturing groups, numbered back-references and conditionals, named groups, inline flags
          # white space is part of a pattern, at its ends too
          " vim", "Mail ", " ", "\tx", "fox ", " - ", "\n",
          "(fire|chrome)fox|(git)hub", "\\b(\\w)\\1", "(a)?b(?(1)c|x)", "(?P<w>\\w)(?P=w)", "(?i)github", "(?x) f i r e ", "(x)|(y)\\2",
          "(\\w+) \\1", "((a)|b)+\\2?c", "(?i:vim) notes", "()", "(^)a",
          "\u03bcTorrent", "\u00b5torrent", "ISI", "\u03bb\u03bf\u03b3\u03bf\u03c2", "Con\u017fole", "\u212aelvin", "STRASSE", "\u0130stanbul"]
_VALS = ["gvim - notes.txt", "Mail-Inbox", "two words", "Mail inbox", "a\tx", "the the fox", "aab", "bx", "vim vim", "firefox", "Firefox", "FIREFOX - github", "abc", "ABC", "xb", "vim", "VIM notes", "ünï", "ÜBER", "日本語", "", "42",
         "e", "straße", "y", 42, None, ["firefox"], {"a": "firefox"}, True, 3.5, "abc\nxb", "line one\nVIM", "xb\n",
         "\u00b5Torrent 3.6", "\u039cTORRENT.EXE", "\u0131s\u0131 pompas\u0131", "\u039b\u039f\u0393\u039f\u03a3\u0391", "CONSOLE", "kelvin", "stra\u00dfe", "istanbul"]
_DKEYS = ["app", "title", "url", "k", "$category", "$tags"]


def _rules(rng):
    out = []
    for _ in range(big_n(rng, rng.randrange(0, 7), p=0.01, sizes=(30, 101, 150))):     # now and then more rules than a regex has groups
        spec = {}
        if rng.random() < 0.95:
            spec["regex"] = rng.choice(_REGEX)
        if rng.random() < 0.5:
            spec["ignore_case"] = rng.random() < 0.6
        r = rng.random()
        if r < 0.4:
            spec["select_keys"] = rng.sample(["app", "title", "k", "missing", "url"], rng.randrange(0, 3))
        depth = rng.choice([0, 1, 1, 2, 2, 3])
        cat = [rng.choice(["Work", "Media", "Uncategorized", "A", "B"])] + [rng.choice(["x", "y", "z"]) for _ in range(depth - 1)] if depth else []
        out.append([cat, spec])
    return out


def _title(rng):
    core = rng.choice(["Facebook", "main.py - proj", "Cemu - FPS: 59.2 - game", "FPS:  60", "FPS: x", "notes", "(x) y", "", "●", "(12)"])
    pre = ""
    for _ in range(rng.choice([0, 0, 1, 1, 2])):
        pre += rng.choice(["(2) ", "(13)", "● ", "* ", "*", "(1)  ", " ", "●(3) "])
    return pre + core


def _url(rng):
    if rng.random() < 0.06:
        return ""
    scheme = rng.choice(["http", "https", "ftp", "chrome-extension", "about+x"])
    host = rng.choice(["", "www.", "www.", "WWW."]) + rng.choice(["example.com", "a.b.c", "localhost", "www.example.org", "x", "www", "www.", "wwwx.com", "127.0.0.1"]) \
        + rng.choice(["", "", ":8080"])
    path = rng.choice(["", "/", "/a/b", "/a;p=1/b", "/a/b;p=1;q", "/ä/ö", "/a%20b", "/index.html;v=2"])
    query = rng.choice(["", "", "?q=1", "?a=1&b=2", "?", "?x;y"])
    frag = rng.choice(["", "", "#top", "#", "#a?b"])
    if scheme not in ("http", "https", "ftp"):
        path, query = path.replace(";", "/"), query.replace(";", "&")
    return f"{scheme}://{host}{path}{query}{frag}"


def gen_case(rng, ctx):
    base, unit = rand_grid(rng)
    base, unit, zone = maybe_zone(rng, base, unit, 0.03)
    fn = rng.choice(["categorize", "categorize", "tag", "split_url_events", "simplify_string"])
    n = big_n(rng, rng.randrange(0, 9))
    evs = []
    for i in range(n):
        data = {k: rng.choice(_VALS) for k in rng.sample(_DKEYS, rng.randrange(0, 4))}
        if data and rng.random() < 0.02:
            # a very long value with the interesting part at its far end
            k = rng.choice(sorted(data))
            data[k] = rng.choice([" ", "x", "z\n", "ä"]) * rng.choice([300, 2000]) + str(data[k])
        if fn == "split_url_events":
            data = {k: v for k, v in data.items() if k != "url"}
            if rng.random() < 0.7:
                data["url"] = _url(rng)
            if rng.random() < 0.2:
                data["$domain"] = "stale"
        evs.append(dict(ts=base + rng.randrange(0, 50) * unit, dur=rng.randrange(0, 5) * unit + rng.choice([0, 1]),
                        data=data, **({"id": (i if rng.random() < 0.8 else rng.randrange(0, 3))} if rng.random() < 0.5 else {}), **({"zone": zone} if zone and rng.random() < 0.7 else {})))
    case = dict(fn=fn, events=evs)
    if fn in ("categorize", "tag"):
        rules = _rules(rng)
        if fn == "tag":
            rules = [[rng.choice(["t1", "t2", "t3", "t1"]), spec] for _, spec in rules]
        case["rules"] = rules
    if fn == "simplify_string":
        key = rng.choice(["title", "title", "k"])
        for e in evs:
            e["data"][key] = _title(rng)
            if rng.random() < 0.6:
                e["data"]["app"] = "x"
            else:
                e["data"].pop("app", None)
        case["key"] = key
    return case


def run_case(case, ctx):
    if case.get("kind") == "query":
        v, info = _tx.run_query_case(case, ctx, MON)
        return _drain_spy(v), info
    events = [mk_event(s) for s in case["events"]]
    fn = case["fn"]
    cl = tmod("classify")
    if fn in ("categorize", "tag"):
        mine = copy.deepcopy(case["rules"])        # the caller's own definitions, used for two sets of rules
        [cl.Rule(spec) for _, spec in mine]
        classes = [(c, cl.Rule(spec)) for c, spec in mine]
        _, _, viols, dom = MON[fn].judge((events, classes))
        viols = _drain_spy(viols)
        if not viols and exact(mine) != exact(case["rules"]):
            viols = [("rule-definition-modified-by-building-the-rule", f"before={exact(case['rules'])[:200]} after={exact(mine)[:200]}")]
        pats = []
        tie = False
        for e in events:
            m = [c for c, spec in case["rules"] if ref_rule_match(spec, e.data)]
            pats.append(min(len(m), 3))
            if fn == "categorize" and len(m) >= 2:
                mx = max(len(c) for c in m)
                tie = tie or sum(1 for c in m if len(c) == mx) >= 2
        sig = (fn, tuple(sorted(set(pats))), tie, any("select_keys" in s and s["select_keys"] for _, s in case["rules"]),
               any(s.get("ignore_case") for _, s in case["rules"]))
        nontriv = any(p >= 2 for p in pats) or tie
    elif fn == "split_url_events":
        _, _, viols, dom = MON[fn].judge((events,))
        parts = set()
        for e in events:
            if "url" in e.data:
                w = ref_split_url(e.data["url"])
                parts |= {k for k, x in w.items() if x} | ({"www"} if "://www." in e.data["url"] else set())
        sig = (fn, tuple(sorted(parts)), any("url" not in e.data for e in events))
        nontriv = any("url" in e.data for e in events)
    else:
        key = case["key"]
        if key == "title" and len(events) % 2:
            _, _, viols, dom = MON[fn].judge((events,))
        else:
            _, _, viols, dom = MON[fn].judge((events,), {"key": key})
        kinds = set()
        for e in events:
            t = e.data[key]
            kinds |= {"parens"} if _RE_PARENS.match(t) else set()
            kinds |= {"dot"} if _RE_DOT.match(t) else set()
            kinds |= {"fps"} if _RE_FPS.search(t) else set()
        sig = (fn, key, tuple(sorted(kinds)), any("app" in e.data for e in events))
        nontriv = bool(kinds)
    if not dom:
        ctx.count("generator_out_of_domain")
    return viols, dict(sig=sig, nontrivial=nontriv and dom)


def worker(ctx):
    """direct driver + the same monitors under generated query programs (+ the repository's tests, thorough tier)"""
    import sys
    from ..worker import default_worker
    _tx.query_workload(ctx, MON, 400 if ctx.tier == "quick" else 6000, ID)
    if ctx.tier == "thorough" and ctx.widx == 0:
        _tx.pytest_workload(ctx, ID)
    default_worker(sys.modules[__name__], ctx)
