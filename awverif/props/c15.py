"""C15 — union_no_overlap keeps list one intact and only the uncovered parts of list two."""
from collections import Counter

from .. import hooks
from ..gen import id_mode, pick_id, big_n, canon, exact, maybe_zone, mk_event, rand_grid, rand_nonoverlapping
from ..model import allen, norm, pairwise_disjoint, subtract, union
from . import _tx
from ._tx import exc_viol, is_event_list, iv, snap, tmod, unmodified

ID = "C15"
LEVEL = "exploration"
ANCHOR_FILES = ["aw_transform/union_no_overlap.py"]
REQUIRED_COUNTERS = ["monitor.union_no_overlap"]
RULE = ("pairs of time-sorted internally non-overlapping event lists on a ms grid, 0-8 events a side (one event "
        "spanning several of the other list both ways, containment both ways, shared edges, zero-length events, "
        "empty lists; list-two ends 1-999 µs after an edge of list one); non-trivial = some list-one and list-two event overlap for a positive time; signature = set "
        "of Allen relations between the lists + flags (one-spans-many, two-spans-many, zero-length in one/two)")
ASSUMPTIONS = ["the edges of list one are millisecond aligned: an Event cannot START between milliseconds, so no implementation could "
               "return exact pieces when a cut point (always a list-one edge) lies between milliseconds (C09 states this granularity "
               "explicitly); list-two events may END between milliseconds - a third of the cases have such ends, 1-999 µs past the grid",
               "a zero-length list-two event exactly on an edge of a list-one event may be kept or dropped (the statement does not say whether an end instant is 'covered'); in a gap it must be kept, strictly inside a list-one event it must be dropped",
               "domain: each list sorted by timestamp as given, pairwise non-overlapping (closed ends may touch), durations >= 0"]


def plan(tier):
    return dict(workers=16, cases=120_000 if tier == "quick" else 4_000_000,
                time_s=30 if tier == "quick" else 500)


def _sorted_disjoint(events):
    """sorted by start (ties in any order), durations >= 0, no two events share more than an instant"""
    ivs = [iv(e) for e in events]
    if not all(s <= e for s, e in ivs) or not all(ivs[i][0] <= ivs[i + 1][0] for i in range(len(ivs) - 1)):
        return False
    top = None      # the latest end so far; every later event must start at or after it, unless one of the two is a mere instant on an edge
    for i, (s, e) in enumerate(ivs):
        for (s0, e0) in ivs[max(0, i - 3):i]:
            if min(e, e0) - max(s, s0) > 0:
                return False
        if top is not None and s < top and e > s:
            # a positive-length event starting before an earlier end: overlap with something further back
            if any(min(e, e0) - max(s, s0) > 0 for (s0, e0) in ivs[:i]):
                return False
        top = e if top is None else max(top, e)
    return True


def pre_unol(events1, events2):
    return (is_event_list(events1) and is_event_list(events2) and _sorted_disjoint(events1) and _sorted_disjoint(events2)
            and all(iv(e)[1] % 1000 == 0 for e in events1))


def _k(e):
    s, t = iv(e)
    return (s, t, exact(e.data), e.id)


def post_unol(old, oldkw, result, exc, after, afterkw):
    one, two = old[0], old[1]
    if exc is not None:
        return exc_viol("unol", exc)
    v = []
    ctx = f"one={[iv(e) for e in one][:8]} two={[iv(e) for e in two][:8]} out={sorted(iv(r) for r in result)[:10]}"
    got = Counter(_k(r) for r in result)
    need = Counter(_k(e) for e in one)
    if need - got:
        v.append(("unol-list-one-event-missing-or-changed", f"missing={list((need - got).elements())[:4]} {ctx}"))
    rest = list((got - need).elements())
    cover1 = norm(iv(e) for e in one)
    pieces = {i: [] for i in range(len(two))}
    for (s, t, data, _id) in rest:
        if t < s:
            v.append(("unol-negative-piece", f"{(s, t)} {ctx}"))
            continue
        srcs = [i for i, e in enumerate(two) if iv(e)[0] <= s and t <= iv(e)[1] and exact(e.data) == data]
        if not srcs:
            v.append(("unol-piece-without-source", f"piece={(s, t, data)} {ctx}"))
            continue
        if t > s:
            pieces[srcs[0] if len(srcs) == 1 else max(srcs, key=lambda i: iv(two[i])[1] - iv(two[i])[0])].append((s, t))
    for i, e in enumerate(two):
        want = subtract([iv(e)], cover1)
        have = norm(pieces[i])
        if have != want:
            lost, extra = subtract(want, have), subtract(have, want)
            kind = "unol-uncovered-part-lost" if lost and not extra else (
                "unol-covered-part-kept" if extra and not lost else "unol-wrong-pieces")
            v.append((kind, f"source={iv(e)} want={want[:4]} have={have[:4]} {ctx}"))
            break
        if sum(t - s for s, t in pieces[i]) != sum(t - s for s, t in have):
            v.append(("unol-piece-duplicated", f"source={iv(e)} pieces={pieces[i][:6]} {ctx}"))
            break
    # zero-length list-two events: one that lies in a gap of list one is plainly "not covered" and must come back, one
    # strictly inside a list-one event is covered and must not; exactly on an edge of a list-one event the statement
    # fixes nothing (closed or open ends are the same time), so either answer is accepted there
    ivs_one = [iv(e) for e in one]
    zero_out = Counter((s, data) for (s, t, data, _id) in rest if s == t)
    zero_in = Counter((iv(e)[0], exact(e.data)) for e in two if iv(e)[0] == iv(e)[1])
    for (pnt, data), n_out in zero_out.items():
        # a zero-length piece is a zero-length list-two event coming back, never a sliver cut off a longer one
        if n_out > zero_in.get((pnt, data), 0):
            v.append(("unol-zero-length-piece-invented", f"at={pnt} data={data} returned={n_out} zero-length list-two events there={zero_in.get((pnt, data), 0)} {ctx}"))
            break
    for (pnt, data), n_in in zero_in.items():
        inside = any(a < pnt < b for a, b in ivs_one)
        on_edge = any(pnt in (a, b) for a, b in ivs_one)
        n_out = zero_out.get((pnt, data), 0)
        if not inside and not on_edge and n_out < n_in:
            v.append(("unol-uncovered-zero-length-event-lost", f"at={pnt} data={data} in={n_in} out={n_out} {ctx}"))
            break
        if inside and n_out and not any(iv(e)[0] <= pnt <= iv(e)[1] and iv(e)[1] > iv(e)[0] and exact(e.data) == data for e in two):
            v.append(("unol-covered-zero-length-event-kept", f"at={pnt} data={data} {ctx}"))
            break
    out_iv = [iv(r) for r in result]
    if not pairwise_disjoint(out_iv):
        v.append(("unol-output-overlaps", ctx))
    if norm(out_iv) != union([iv(e) for e in one], [iv(e) for e in two]):
        v.append(("unol-cover-differs", ctx))
    v += unmodified("unol-one", one, after[0])
    v += unmodified("unol-two", two, after[1])
    return v


MON = {}


def monitors():
    return [(tmod("union_no_overlap"), "union_no_overlap", pre_unol, post_unol)]


def setup(ctx):
    import aw_query.functions  # noqa: F401 - its aliases of the transforms must exist before they are patched
    for m, n, pre, post in monitors():
        MON[n] = hooks.Monitor(m, n, pre, post).install()


def teardown(ctx):
    for n, mon in MON.items():
        ctx.count(f"monitor.{n}", mon.evaluations)
        ctx.count(f"out_of_domain.{n}", mon.out_of_domain)
        mon.uninstall()


_DATA = [{"label": "a"}, {"label": "b"}, {}, {"app": "x", "n": [1, {"k": None}]}, {"label": "a", "cursor": {"$tuple": [12, 40]}},
         {"label": "a", "cursor": [12, 40]}, {"size": {"wh": {"$tuple": [80, 24]}}, "hist": [{"$tuple": ["a", 1]}]}]


def _specs(rng, ivs, base, unit, idbase, zone=None):
    out = []
    mode = id_mode(rng)
    for i, (s, e) in enumerate(ivs):
        sp = dict(ts=base + s * unit, dur=(e - s) * unit, data=rng.choice(_DATA))
        if zone and rng.random() < 0.7:
            sp["zone"] = zone
        eid = pick_id(rng, mode, i, idbase)
        if eid is not None:
            sp["id"] = eid
        out.append(sp)
    return out


def gen_case(rng, ctx):
    base, unit = rand_grid(rng)
    base, unit, zone = maybe_zone(rng, base, unit)
    span = rng.choice([6, 10, 16, 30])
    na, nb = big_n(rng, rng.randrange(0, 9), sizes=(120, 257)), big_n(rng, rng.randrange(0, 9), sizes=(120, 257))
    if max(na, nb) > 50:
        span = 3 * max(na, nb)
    a = rand_nonoverlapping(rng, na, span)
    b = rand_nonoverlapping(rng, nb, span)
    r = rng.random()
    if r < 0.1:
        a = [(rng.randrange(0, 3), span - rng.randrange(0, 3))]
    elif r < 0.2:
        b = [(rng.randrange(0, 3), span - rng.randrange(0, 3))]
    elif r < 0.27 and a:
        b = list(a)
    for lst in (a, b):
        # a zero-length event and the event that starts at the same instant may stand in either order (both are "sorted")
        for i in range(len(lst) - 1):
            if lst[i][0] == lst[i][1] == lst[i + 1][0] and lst[i + 1][1] > lst[i + 1][0] and rng.random() < 0.4:
                lst[i], lst[i + 1] = lst[i + 1], lst[i]
    sa, sb = _specs(rng, a, base, unit, 100, zone), _specs(rng, b, base, unit, 200, zone)
    if rng.random() < 0.35:
        # list-two events that end between milliseconds (durations keep microseconds although timestamps do not):
        # every cut point is still an edge of list one, so exact pieces remain possible
        for i, sp in enumerate(sb):
            room = sb[i + 1]["ts"] - (sp["ts"] + sp["dur"]) if i + 1 < len(sb) else 10**6
            if room >= 1000 and rng.random() < 0.6:
                sp["dur"] += rng.choice([1, 400, 700, 999, rng.randrange(1, 1000)])
    return dict(a=sa, b=sb)


def mechanism(one, two):
    """Shape predicates of a failing case (used by classify for known findings, if any are ever listed)."""
    m = []
    for e in one:
        n = sum(1 for f in two if min(iv(e)[1], iv(f)[1]) > max(iv(e)[0], iv(f)[0]))
        if n >= 2:
            m.append("one-event-overlaps-several-of-two")
            break
    for e in one:
        if iv(e)[0] == iv(e)[1] and any(iv(f)[0] <= iv(e)[0] < iv(f)[1] for f in two):
            m.append("zero-length-one-event-inside-two-event")
            break
    return m


def run_case(case, ctx):
    if case.get("kind") == "query":
        return _tx.run_query_case(case, ctx, MON)
    a, b = [mk_event(s) for s in case["a"]], [mk_event(s) for s in case["b"]]
    rel = sorted({allen(iv(x), iv(y)) for x in a for y in b})
    flags = "".join([
        "A" if any(sum(1 for f in b if min(iv(e)[1], iv(f)[1]) > max(iv(e)[0], iv(f)[0])) >= 2 for e in a) else "",
        "B" if any(sum(1 for f in a if min(iv(e)[1], iv(f)[1]) > max(iv(e)[0], iv(f)[0])) >= 2 for e in b) else "",
        "z" if any(iv(e)[0] == iv(e)[1] for e in a) else "", "Z" if any(iv(e)[0] == iv(e)[1] for e in b) else ""])
    nontriv = any(min(iv(x)[1], iv(y)[1]) > max(iv(x)[0], iv(y)[0]) for x in a for y in b)
    _, _, viols, dom = MON["union_no_overlap"].judge((a, b))
    if not dom:
        ctx.count("generator_out_of_domain")
    return viols, dict(sig="".join(rel) + "|" + flags, nontrivial=nontriv and dom)


def worker(ctx):
    """direct driver + the same monitors under generated query programs (+ the repository's tests, thorough tier)"""
    import sys
    from ..worker import default_worker
    _tx.query_workload(ctx, MON, 400 if ctx.tier == "quick" else 6000, ID)
    if ctx.tier == "thorough" and ctx.widx == 0:
        _tx.pytest_workload(ctx, ID)
    default_worker(sys.modules[__name__], ctx)
