"""C20 — effective configuration is the defaults overlaid by the user's file."""
import datetime as _dt
import json
import os
import shutil
import tomllib

ID = "C20"
LEVEL = "exploration"
ANCHOR_FILES = ["aw_core/config.py", "aw_core/dirs.py"]
REQUIRED_COUNTERS = ["loads_with_user_file", "first_run_loads"]
RULE = ("pairs of (default, user) TOML documents emitted from generated nested dicts (tables up to three deep) by a "
        "syntax-varying emitter: [a.b.c] headers with/without parent headers, shuffled header order, dotted keys, "
        "inline tables, every scalar type, one-line and multi-line arrays, arrays of inline tables, whole-line and "
        "trailing comments, blank lines, indentation; user documents derived from the default by dropping, changing, "
        "re-typing (scalar<->table) and adding keys; with an existing user file (overlay law + file untouched) and "
        "without (first-run law, three consecutive loads; defaults restricted to one-line values); a third of the cases reuse "
        "the previous case's default text with a different user file; non-trivial = the "
        "documents share a key whose values differ, or a table nested >= 2 deep; signature = (mode, syntax features "
        "used, overlap classes: overridden scalar / merged table / type change / user-only / default-only, max depth)")
ASSUMPTIONS = ["tomllib (stdlib) is the reference TOML reader; documents it rejects are discarded by the generator",
               "first-run law only for defaults whose values are each written on one line (no multi-line arrays/strings, "
               "no arrays of tables), as the statement says"]

_n = [0]
_LAST = {}


def plan(tier):
    return dict(workers=16, cases=48_000 if tier == "quick" else 1_200_000, time_s=40 if tier == "quick" else 600)


# ------------------------------------------------------------------ reference

def ref_deep_merge(a, b):
    out = dict(a)
    for k, v in b.items():
        if k in out and isinstance(out[k], dict) and isinstance(v, dict):
            out[k] = ref_deep_merge(out[k], v)
        else:
            out[k] = v
    return out


def tag(x):
    """structure with explicit scalar types (True != 1, 1 != 1.0)"""
    if isinstance(x, dict):
        return ("d", tuple(sorted((str(k), tag(v)) for k, v in x.items())))
    if isinstance(x, (list, tuple)):
        return ("l", tuple(tag(v) for v in x))
    if isinstance(x, bool):
        return ("b", bool(x))
    if isinstance(x, int):
        return ("i", int(x))
    if isinstance(x, float):
        return ("f", repr(float(x)))
    if isinstance(x, str):
        return ("s", str(x))
    if isinstance(x, _dt.datetime):
        return ("dt", x.isoformat())
    if isinstance(x, _dt.date):
        return ("date", x.isoformat())
    if isinstance(x, _dt.time):
        return ("time", x.isoformat())
    return ("?", repr(x))


def walk(x):
    """What user code sees through item access, converted to plain Python."""
    if isinstance(x, dict):
        return {str(k): walk(x[k]) for k in x}
    if isinstance(x, (list, tuple)):
        return [walk(v) for v in x]
    return x.unwrap() if hasattr(x, "unwrap") else x


# ------------------------------------------------------------------ document model + emitter

# (quoted keys may contain what separates keys elsewhere: "a.b" is ONE key, next to a table a with a key b)
_KEYS = ["a", "b", "c", "name", "port", "x-y", "tbl", "sub", "ünï", "k 1", "log_level", "1", "a.b", "tbl.sub", "example.com", "a/b", "a=b", "#c"]


def _key(k):
    import re
    return k if re.fullmatch(r"[A-Za-z0-9_-]+", k) else json.dumps(k, ensure_ascii=False)


Q3 = "'" * 3
# strings of several lines, some of which look like comments, headers or keys
_MULTILINE = ["first\n   \nlast", "  two\n\t\n  spaces\n ", "    Welcome\n      to the server\n    bye\n", "#!/bin/sh\necho started\n", "# Welcome\nto the *server*\n  # indented heading\nbye", "first\n[fake.header]\nkey = 1\n",
              "a\n\nb", "\nstarts with a newline", "ends with a quote\"\n", "tab\there\n#c", Q3 + "\nx", "ünï\n日本\n"]


def _scalar(rng, one_line=True):
    r = rng.random()
    if not one_line and r < 0.08:
        return rng.choice(_MULTILINE)
    if r < 0.25:
        return rng.choice([0, 1, -1, 8080, 5600, 2**40])
    if r < 0.4:
        return rng.choice([1.5, -0.5, 1e3, 6.02e23, 0.1])
    if r < 0.55:
        return rng.random() < 0.5
    if r < 0.85:
        return rng.choice(["", "x", "localhost", "a b", "q\"uote", "back\\slash", "ünï 日本", "# not a comment",
                           "[not a header]", "a = 1", "tab\t", "'single'",
                           # characters that str.splitlines() (but not TOML) takes for line ends
                           "{time}\u2028[{level}] {message}", "a\u2029[b]", "x\u0085 [y]", "one\u2028two"])
    if r < 0.9:
        return {"$dt": rng.choice(["1979-05-27T07:32:00Z", "2020-02-29T23:59:59.999+05:30", "1979-05-27T07:32:00"])}
    if r < 0.95:
        return {"$date": "1979-05-27"}
    return {"$time": "07:32:00"}


def _value(rng, one_line):
    r = rng.random()
    if r < 0.78:
        return _scalar(rng, one_line)
    n = rng.randrange(0, 4)
    r2 = rng.random()
    if r2 < 0.6:
        kind = rng.choice(["i", "s", "m"])
        return {"$arr": [rng.choice([1, 2, 3]) if kind == "i" else rng.choice(["x", "y", "[z]"]) if kind == "s"
                         else _scalar(rng) for _ in range(n)], "ml": (not one_line) and rng.random() < 0.5}
    if r2 < 0.8:
        return {"$arr": [{"$arr": [1, 2], "ml": False}, {"$arr": ["[x]"], "ml": False}][:n], "ml": (not one_line) and rng.random() < 0.5}
    # arrays of (inline) tables whose tables do not all have the same keys: an array is a value, taken as a whole
    return {"$arr": [{"$inl": {k: rng.choice([1, 2, "x", True]) for k in rng.sample(["a", "b", "c", "name"], rng.randrange(1, 4))}}
                     for _ in range(n)], "ml": False}


def gen_doc(rng, depth, one_line):
    d = {}
    for k in rng.sample(_KEYS, rng.randrange(0, 5)):
        if depth > 0 and rng.random() < 0.4:
            d[k] = {"$tbl": gen_doc(rng, depth - 1, one_line)}
        else:
            d[k] = _value(rng, one_line)
    return d


def derive_user(rng, d, depth, top=True):
    """A user document related to the default: drop / change / re-type / keep / add."""
    u = {}
    for k, v in d.items():
        r = rng.random()
        is_tbl = isinstance(v, dict) and "$tbl" in v
        if r < 0.3:
            continue
        if r < 0.5:
            u[k] = v
        elif r < 0.7:
            u[k] = {"$tbl": derive_user(rng, v["$tbl"], depth - 1, False)} if is_tbl else _value(rng, False)
        elif r < 0.85:
            u[k] = _value(rng, False) if is_tbl else ({"$tbl": gen_doc(rng, max(0, depth - 1), False)} if depth > 0 else _value(rng, False))
        else:
            u[k] = {"$tbl": derive_user(rng, v["$tbl"], depth - 1, False)} if is_tbl else _value(rng, False)
    for k in rng.sample(_KEYS, rng.randrange(0, 3)):
        if k not in u and k not in d:
            u[k] = {"$tbl": gen_doc(rng, max(0, depth - 1), False)} if depth > 0 and rng.random() < 0.4 else _value(rng, False)
    return u


def _emit_scalar(rng, v, ml_ok=False):
    if isinstance(v, str) and "\n" in v and ml_ok and rng.random() < 0.8:
        # a multi-line string, basic or literal; a newline right after the opening delimiter is not part of the value
        lead = "\n" if rng.random() < 0.5 or v.startswith("\n") else ""
        if Q3 not in v and "\t" not in v and not v.endswith("'") and rng.random() < 0.5:
            return Q3 + lead + v + Q3
        body = v.replace("\\", "\\\\").replace('"', '\\"').replace("\t", "\\t")
        return '"""' + lead + body + '"""'
    if isinstance(v, bool):
        return "true" if v else "false"
    if isinstance(v, int):
        if v >= 0 and rng.random() < 0.15:
            return rng.choice([hex, oct, bin])(v)
        if v >= 1000 and rng.random() < 0.2:
            return f"{v:_}"
        return str(v)
    if isinstance(v, float):
        return repr(v)
    if isinstance(v, str):
        if "'" not in v and "\t" not in v and "\n" not in v and rng.random() < 0.3:
            return "'" + v + "'"
        return json.dumps(v, ensure_ascii=rng.random() < 0.3)
    if "$dt" in v:
        return v["$dt"]
    if "$date" in v:
        return v["$date"]
    if "$time" in v:
        return v["$time"]
    raise AssertionError(v)


def _emit_value(rng, v, ml_ok=False):
    if isinstance(v, dict) and "$arr" in v:
        items = [_emit_value(rng, x) for x in v["$arr"]]
        if v.get("ml") and items:
            return "[\n" + "".join(f"  {it},{'  # item' if rng.random() < 0.2 else ''}\n" for it in items) + "]"
        return "[" + ", ".join(items) + (rng.choice(["", ","]) if items else "") + "]"
    if isinstance(v, dict) and "$inl" in v:
        return "{" + ", ".join(f"{_key(k)} = {_emit_value(rng, x)}" for k, x in v["$inl"].items()) + "}"
    if isinstance(v, dict) and "$tbl" in v:
        return "{" + ", ".join(f"{_key(k)} = {_emit_value(rng, x)}" for k, x in v["$tbl"].items()) + "}"
    return _emit_scalar(rng, v, ml_ok)


def emit(rng, doc, feats):
    """TOML text for the nested doc, choosing a syntax per table."""
    blocks = []   # header blocks (list of lines), may be shuffled

    def deco(line):
        ind = rng.choice(["", "", "", "  ", "\t"])
        if ind:
            feats.add("indent")
        tail = ""
        if rng.random() < 0.12:
            tail = rng.choice(["  # trailing", " #c", "\t# [x]", "  # see also\u2028[advanced]", " # note\u2029[x]\u0085[y]"])
            feats.add("trailing-comment")
        return ind + line + tail

    def noise(lines):
        r = rng.random()
        if r < 0.12:
            lines.append("")
            feats.add("blank")
        elif r < 0.22:
            lines.append(rng.choice(["# a comment", "#", "  # indented comment", "# [fake.header]", "# key = 1", "# two\u2028[lines]", "# nel\u0085[x]"]))
            feats.add("comment")

    def body_lines(path, d, lines, prefix=()):
        """key/value lines of table `path`; sub-tables as dotted / inline here, or deferred to header blocks"""
        deferred = []
        for k, v in d.items():
            if isinstance(v, dict) and "$tbl" in v:
                style = rng.choice(["header", "header", "header", "inline", "dotted"])
                if prefix and style == "header":
                    style = "dotted"
                if style == "header":
                    deferred.append((k, v["$tbl"]))
                elif style == "inline":
                    feats.add("inline-table")
                    noise(lines)
                    lines.append(deco(".".join(_key(x) for x in prefix + (k,)) + " = " + _emit_value(rng, v)))
                else:
                    feats.add("dotted-key")
                    if not v["$tbl"]:
                        lines.append(deco(".".join(_key(x) for x in prefix + (k,)) + " = {}"))
                    else:
                        body_lines(path, v["$tbl"], lines, prefix + (k,))
            else:
                if isinstance(v, dict) and v.get("ml") and v.get("$arr"):
                    feats.add("multiline-array")
                noise(lines)
                val = _emit_value(rng, v, ml_ok=True)
                if val.startswith(('"""', Q3)):
                    feats.add("multiline-string")
                    lines.append(".".join(_key(x) for x in prefix + (k,)) + " = " + val)      # no indent / trailing comment here
                else:
                    lines.append(deco(".".join(_key(x) for x in prefix + (k,)) + " = " + val))
        return deferred

    def table(path, d):
        lines = []
        deferred = body_lines(path, d, lines)
        has_body = bool(lines)
        if path:
            # a table with only header-style children may leave its own header out (implicit super-table)
            if has_body or not deferred or rng.random() < 0.5:
                lines.insert(0, deco("[" + ".".join(_key(x) for x in path) + "]"))
                if len(path) > 1:
                    feats.add("nested-header")
            else:
                feats.add("implicit-parent")
        blocks.append((path, lines))
        for k, sub in deferred:
            table(path + (k,), sub)

    table((), doc)
    root = blocks[0][1]
    rest = blocks[1:]
    if len(rest) > 1 and rng.random() < 0.4:
        rng.shuffle(rest)
        feats.add("shuffled-headers")
    out = list(root)
    for _, lines in rest:
        if rng.random() < 0.5:
            out.append("")
        out.extend(lines)
    text = "\n".join(out)
    if rng.random() < 0.8:
        text += "\n"
    return text


def gen_case(rng, ctx):
    for _ in range(50):
        first_run = rng.random() < 0.3
        # without a file the FIRST load returns the defaults whatever they look like (the user's file sets nothing); only what
        # LATER loads make of the written file is restricted to one-line values
        first_only = first_run and rng.random() < 0.3
        dfeats, ufeats = set(), set()
        if _LAST and rng.random() < 0.35 and (not first_run or first_only or _LAST["one_line"]):
            # the SAME default text as in the previous load of this process, with another user file (or none): whatever
            # the library remembers about a default document must not carry one user's values into the next load
            ddoc, dtext = _LAST["ddoc"], _LAST["dtext"]
            dfeats.add("same-defaults-as-previous-load")
        else:
            ddoc = gen_doc(rng, rng.choice([1, 2, 2, 3]), one_line=first_run and not first_only)
            dtext = emit(rng, ddoc, dfeats)
            if rng.random() < 0.07:
                # the defaults as an application writes them: a triple-quoted Python string inside a function, every line
                # carrying the same indentation - the lines INSIDE a multi-line TOML string included (there it is part of
                # the value; the reference is computed from this very text)
                pad = rng.choice(["    ", "  ", "\t", "        "])
                dtext = "".join(pad + line for line in dtext.splitlines(True))
                dfeats.add("whole-document-indented")
        utext = None
        if not first_run:
            udoc = derive_user(rng, ddoc, 3) if rng.random() < 0.85 else gen_doc(rng, 2, False)
            utext = emit(rng, udoc, ufeats)
            if rng.random() < 0.06:
                # a user file that sets nothing at all is still the user's file
                utext = rng.choice(["", "\n\n", "# only a comment\n", "# a = 1\n#[t]\n# b = 2", "   \n\t\n", "# my notes: remember to set port\n\n"])
                ufeats.add("keyless-user-file")
        try:
            tomllib.loads(dtext)
            if utext is not None:
                tomllib.loads(utext)
        except tomllib.TOMLDecodeError:
            ctx.count("generator_rejects")
            continue
        _LAST.update(ddoc=ddoc, dtext=dtext, one_line=(first_run and not first_only) or _LAST.get("one_line", False) and dtext == _LAST.get("dtext"))
        return dict(default=dtext, user=utext, feats=sorted(dfeats | ufeats), app_style=rng.choice([0, 0, 0, 1, 2, 3, 4]),
                    first_only=first_only)
    raise RuntimeError("emitter keeps producing invalid TOML")


def _depth(d):
    return 1 + max((_depth(v) for v in d.values() if isinstance(v, dict)), default=0) if isinstance(d, dict) else 0


def _overlap(D, U, out):
    for k in set(D) | set(U):
        if k in D and k in U:
            dt, ut = isinstance(D[k], dict), isinstance(U[k], dict)
            if dt and ut:
                out.add("merged-table")
                _overlap(D[k], U[k], out)
            elif dt != ut:
                out.add("type-change")
            elif tag(D[k]) != tag(U[k]):
                out.add("overridden")
            else:
                out.add("same")
        elif k in U:
            out.add("user-only")
        else:
            out.add("default-only")


def run_case(case, ctx):
    from aw_core import dirs
    from aw_core.config import load_config_toml
    import tomlkit
    _n[0] += 1
    # application names as modules have them: plain, with a version or profile after a dot, with an underscore
    style = case.get("app_style", 0) % 5
    app = [f"app-{os.getpid()}-{_n[0]}", f"aw-watcher-demo-{os.getpid()}-{_n[0]}.v2", f"aw-sync.0.13-{os.getpid()}-{_n[0]}",
           f"aw_server-{os.getpid()}-{_n[0]}.testing", f"app.{os.getpid()}.{_n[0]}"][style]
    viols = []
    dtext, utext = case["default"], case["user"]
    D = tomllib.loads(dtext)
    try:
        tomlkit.parse(dtext)
        if utext is not None:
            tomlkit.parse(utext)
    except Exception as ex:  # noqa: BLE001 - a tomlkit limitation, not aw-core's
        ctx.count("tomlkit_rejects_valid_toml")
        return [], dict(sig=("tomlkit-reject",), nontrivial=False)
    moved_home = None
    if (len(dtext) + len(utext or "")) % 3 == 0:
        # the user's configuration home moves (another profile, a sandbox, a test of the caller's): the file that counts
        # is the one under the directory the environment names NOW, wherever earlier loads of this process looked
        home = os.path.join(ctx.tmp, f"cfg home {os.getpid()}-{_n[0]} [p]")
        os.makedirs(home)
        moved_home = home
        os.environ["XDG_CONFIG_HOME"] = home
        cdir = os.path.join(home, "activitywatch", app)
        os.makedirs(cdir)
        ctx.count("loads_after_the_config_home_moved")
    else:
        cdir = dirs.get_config_dir(app)
    path = os.path.join(cdir, f"{app}.toml")
    try:
        if utext is not None:
            with open(path, "w", newline="") as f:
                f.write(utext)
            before = open(path, "rb").read()
            U = tomllib.loads(utext)
            want = ref_deep_merge(D, U)
            try:
                got = load_config_toml(app, dtext)
            except Exception as ex:  # noqa: BLE001
                viols.append(("load-raised", f"{type(ex).__name__}: {ex}"))
                got = None
            ctx.count("loads_with_user_file")
            if got is not None:
                try:
                    plain = got.unwrap() if hasattr(got, "unwrap") else got
                except Exception as ex:  # noqa: BLE001
                    plain = None
                    viols.append(("result-unwrap-raised", f"{type(ex).__name__}: {ex}"))
                if plain is not None and tag(plain) != tag(want):
                    viols.append(("overlay-wrong", f"want={want!r:.400} got={plain!r:.400}"))
                try:
                    w = walk(got)
                    if tag(w) != tag(want):
                        viols.append(("overlay-wrong-through-item-access", f"want={want!r:.400} got={w!r:.400}"))
                except Exception as ex:  # noqa: BLE001
                    viols.append(("result-not-walkable", f"{type(ex).__name__}: {ex}"))
            after = open(path, "rb").read() if os.path.exists(path) else None
            if after != before:
                viols.append(("user-file-altered", f"before={before[:200]!r} after={None if after is None else after[:200]!r}"))
            ov = set()
            _overlap(D, U, ov)
            sig = ("overlay", tuple(case["feats"]), tuple(sorted(ov)), max(_depth(D), _depth(U)))
            nontriv = bool(ov & {"overridden", "type-change", "merged-table"}) or max(_depth(D), _depth(U)) >= 3
        else:
            written = None
            for i in range(3):
                try:
                    got = load_config_toml(app, dtext)
                except Exception as ex:  # noqa: BLE001
                    viols.append(("first-run-load-raised", f"load #{i + 1}: {type(ex).__name__}: {ex}"))
                    break
                ctx.count("first_run_loads")
                try:
                    plain = got.unwrap() if hasattr(got, "unwrap") else got
                except Exception as ex:  # noqa: BLE001
                    viols.append(("first-run-unwrap-raised", f"{type(ex).__name__}: {ex}"))
                    break
                if tag(plain) != tag(D):
                    viols.append(("first-run-not-defaults", f"load #{i + 1}: want={D!r:.300} got={plain!r:.300}"))
                    break
                if case.get("first_only"):
                    ctx.count("first_loads_with_values_on_several_lines")
                    break
                if not os.path.isfile(path):
                    viols.append(("first-run-no-file-written", path))
                    break
                now = open(path, "rb").read()
                if written is not None and now != written:
                    viols.append(("first-run-file-not-stable", f"load #{i + 1} rewrote the file"))
                    break
                written = now
            sig = ("first-run", tuple(case["feats"]), _depth(D))
            nontriv = _depth(D) >= 2
    finally:
        shutil.rmtree(cdir, ignore_errors=True)
        if moved_home:
            shutil.rmtree(moved_home, ignore_errors=True)
    return viols, dict(sig=sig, nontrivial=nontriv)
