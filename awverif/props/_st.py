"""Helpers shared by the datastore properties."""
from datetime import timedelta

from ..gen import canon, dt_us, td_us


def obs(e):
    """(id, ts_us, dur_us, canonical data) of an event handed out by a store"""
    return (e.id, dt_us(e.timestamp), td_us(e.duration), canon(e.data))


def dump_bucket(bucket):
    """Everything observable about the events of a bucket, in listing order."""
    return [obs(e) for e in bucket.get(-1)]


def meta_canon(md):
    return canon({k: (v if isinstance(v, (str, int, float, dict, list, type(None))) else str(v)) for k, v in md.items()})


def dump_store(ds, skip=()):
    """{bucket id: (metadata, sorted events)} for all buckets except `skip`."""
    out = {}
    for bid in sorted(ds.buckets()):
        if bid in skip:
            continue
        b = ds[bid]
        out[bid] = (meta_canon(b.metadata()), sorted(dump_bucket(b), key=lambda t: (t[0] is None, t[0], t[1:])))
    return out


def wreck_json(x, depth=0):
    """Mutate a JSON structure in place at every level."""
    if isinstance(x, dict):
        for k in list(x):
            wreck_json(x[k], depth + 1)
        for k in list(x)[:1]:
            if depth > 0:
                del x[k]
        x["__wrecked__"] = depth
    elif isinstance(x, list):
        for v in x:
            wreck_json(v, depth + 1)
        x.append("__wrecked__")
        x.insert(0, None)


def wreck_event(ev):
    """Mutate everything reachable from an event object the caller still holds."""
    try:
        wreck_json(ev.data)
    except Exception:
        pass
    ev.timestamp = ev.timestamp + timedelta(days=1, milliseconds=1)
    ev.duration = ev.duration + timedelta(seconds=7, microseconds=3)
    ev.id = 987654321
    ev["data"] = {"replaced": True}


def wreck_dict(d):
    if not isinstance(d, dict):
        return
    wreck_json(d)
    for k in list(d):
        if isinstance(d[k], str):
            d[k] = d[k] + "~wrecked"


# ---------------------------------------------------------------------------
# non-perturbing observation: the writer's own (possibly uncommitted) view through a marked SELECT on the store's
# connection. Reading events through the API commits on the lazily-committing store, which would hide every defect
# that loses *pending* writes (a stray rollback, a skipped flush).

def raw_view(store):
    """None for the memory backend; else (rows, ids): rows = frozenset of ('B', id, name, type, client, hostname,
    created, datastr) and ('E', bucket id, uid, start, end); ids = {(bucket id, uid): event id}."""
    if store.backend == "memory":
        return None
    from ._crash import decode
    conn = store.storage.conn if store.backend == "sqlite" else store.storage.db.connection()
    return decode(conn, store.backend)


def raw_others(rows, skip):
    return frozenset(r for r in rows if r[1] != skip)


def raw_uids(rows):
    out = {}
    for r in rows:
        if r[0] == "B":
            out.setdefault(r[1], set())
        else:
            out.setdefault(r[1], set()).add(r[2])
    return out
