"""C03 — time-window reads return exactly the intersecting events, newest first, limited."""
from ..backends import BACKENDS, Store
from ..gen import DAY_US, MAX_US, ZONE_NAMES, ZONE_TRANSITIONS, zones_available, bucket_ids, canon, dt_us, floor_ms, mk_dt, mk_event, rand_instant, rand_offset, td_us
from ..model import allen

ID = "C03"
LEVEL = "exploration"
ANCHOR_FILES = ["aw_datastore/datastore.py", "aw_datastore/storages/memory.py", "aw_datastore/storages/sqlite.py",
                "aw_datastore/storages/peewee.py"]
REQUIRED_COUNTERS = ["reads.memory", "reads.sqlite", "reads.peewee", "counts_checked", "clipped_events_checked"]
TAU = 2000  # µs: "only events within about 2 ms of an edge may go either way"
RULE = ("per case one store and one bucket (3 % of the cases around the Unix epoch, events and windows before it included; in 60 % of the cases next to a second bucket with a look-alike id that holds events at the very same instants) holding 1-12 events (overlapping, nested, adjacent, identical, zero-length, "
        "up to exactly 24 h long, events reaching a window from ~24 h before it) and ~25 windows (open on either "
        "side, zero-width, sub-millisecond, edges exactly on / 1 µs / 1 ms / 3 ms around event starts and ends, "
        "independent UTC offsets on both edges; in 6 % of the cases the days around a daylight-saving switch of a real zone, edges handed over as datetimes of that zone, half of the events a day long or nearly) × limits {-1, 0, 1, 2, n, n+1}; each window is read and counted; up to three "
        "writes (insert / delete / replace / replace_last) are interleaved, each followed by a verbatim repetition of an "
        "earlier window; "
        "evaluations = windows read; non-trivial = some event lies partly inside the window, or the limit truncates; "
        "signature = (backend, set of Allen relations event->window, limit class, open sides, truncated?)")
ASSUMPTIONS = ["events are at most 24 h long (the statement's domain)", "window start <= window end",
               f"edge tolerance tau = {TAU} µs; an event is 'must' if it intersects the window under every ±tau "
               "perturbation of the edges and 'may' if under some"]


def plan(tier):
    return dict(workers=16, cases=240_000 if tier == "quick" else 6_000_000, time_s=45 if tier == "quick" else 900)


def gen_case(rng, ctx):
    backend = BACKENDS[rng.randrange(3)]
    unit = rng.choice([1000, 1000, 10**6, 60 * 10**6, 3600 * 10**6])
    base = floor_ms(rand_instant(rng, 10**12, MAX_US - 40 * DAY_US))
    if rng.random() < 0.03:
        # the first hours of 1970 as clocks east of Greenwich show them: instants just before the Unix epoch
        unit = rng.choice([1000, 10**6, 60 * 10**6, 3600 * 10**6])
        # half of them on a grid that contains the epoch itself (an instant whose number is 0)
        base = -rng.randrange(0, 25) * unit if rng.random() < 0.5 else floor_ms(-rng.randrange(0, 14 * 3600 * 10**6))
    zone = None
    if rng.random() < 0.06 and zones_available():
        # the days around a daylight-saving switch of a real zone: window edges are handed over as datetimes of that zone
        # (a day there is 23 or 25 hours long), next to events of up to exactly 24 h
        zone = rng.choice(ZONE_NAMES)
        unit = 3600 * 10**6
        base = rng.choice(ZONE_TRANSITIONS[zone]) * 10**6 - rng.randrange(18, 30) * unit
    n = rng.randrange(1, 13)
    evs = []
    for i in range(n):
        s = base + rng.randrange(0, 30) * unit
        r = rng.random()
        if zone and r >= 0.5:
            r = 0.2 + 0.1 * rng.random()         # half of the events there are a day long, or nearly
        if r < 0.2:
            d = 0
        elif r < 0.3:
            d = DAY_US if rng.random() < 0.5 else DAY_US - rng.choice([1, 1000, 60 * 10**6])
        else:
            d = min(DAY_US, rng.randrange(0, 12) * unit + rng.choice([0, 0, 1, 999, 1000, 1500]))
        evs.append(dict(ts=s, dur=d, off=rand_offset(rng), data={"uid": i}))
    if rng.random() < 0.3 and evs:
        evs.append(dict(evs[0], data={"uid": n}))     # identical twin
    edges = sorted({e["ts"] for e in evs} | {e["ts"] + e["dur"] for e in evs})
    qs = []
    for _ in range(25):
        def edge():
            r = rng.random()
            if r < 0.7:
                return rng.choice(edges) + rng.choice([0, 0, 1, -1, 1000, -1000, 3000, -3000, 2000, -2000, 500, -500, 10**6])
            return base + rng.randrange(-5, 40) * unit + rng.choice([0, 0, 1, 999, 123])
        r = rng.random()
        ws = we = None
        if r < 0.12:
            ws = edge()
        elif r < 0.24:
            we = edge()
        elif r < 0.28:
            pass
        else:
            a, b_ = edge(), edge()
            ws, we = min(a, b_), max(a, b_)
            r2 = rng.random()
            if r2 < 0.15:
                we = ws
            elif r2 < 0.3:
                we = ws + rng.choice([1, 300, 999, 1000, 1001])
            elif r2 < 0.4 and evs:      # a window whose start lies ~24 h after an event start
                e0 = rng.choice(evs)
                ws = e0["ts"] + DAY_US - rng.choice([0, 1000, 60 * 10**6, 3600 * 10**6])
                we = ws + rng.choice([0, 1000, 10**6, DAY_US])
        q = dict(ws=ws, wo=rand_offset(rng), we=we, eo=rand_offset(rng),
                 limit=rng.choice([-1, -1, -1, -5, 0, 1, 1, 2, len(evs), len(evs) + 1, 3]))
        if zone:
            if rng.random() < 0.8:
                q["wz"] = zone
            if rng.random() < 0.6:
                q["ez"] = zone
        qs.append(q)
    # writes between the reads (anything remembered from an earlier read must not survive them); each is followed by a
    # verbatim repetition of an earlier window
    muts = []
    for k in sorted(rng.sample(range(1, 25), rng.choice([0, 1, 2, 3]))):
        s = base + rng.randrange(0, 30) * unit
        muts.append(dict(before=k, op=rng.choice(["insert", "delete", "replace", "replace_last"]), pick=rng.randrange(100),
                         ev=dict(ts=s, dur=rng.randrange(0, 12) * unit + rng.choice([0, 1, 999]), off=rand_offset(rng), data={"uid": 1000 + k}),
                         repeat=rng.randrange(0, k)))
    # a neighbouring bucket (an id easily taken for this one's) holding events at the very same instants
    names = bucket_ids(rng, 2)
    return dict(backend=backend, events=evs, queries=qs, muts=muts, name=names[0],
                neighbour=dict(name=names[1], when=rng.choice(["before", "after"])) if rng.random() < 0.6 else None)


def judge_read(stored, q, got, count, viols, backend):
    """stored: {id: (s, e, data)}; got: list of observed (id, ts, dur, data); returns (sig parts, nontrivial)"""
    ws, we, limit = q["ws"], q["we"], q["limit"]
    must = {i for i, (s, e, _) in stored.items()
            if (ws is None or e >= ws + TAU) and (we is None or s <= we - TAU)}
    may = {i for i, (s, e, _) in stored.items()
           if (ws is None or e >= ws - TAU) and (we is None or s <= we + TAU)}
    where = f"backend={backend} window=({ws},{we}) limit={limit}"
    ids = [g[0] for g in got]
    if len(set(ids)) != len(ids):
        viols.append(("read-returns-duplicates", f"{where} ids={ids}"))
    unknown = [i for i in ids if i not in stored]
    if unknown:
        viols.append(("read-returns-unknown-event", f"{where} ids={unknown}"))
        return
    outside = [i for i in ids if i not in may]
    if outside:
        viols.append(("read-returns-event-outside-window", f"{where} events={[stored[i][:2] for i in outside][:4]}"))
    ts = [g[1] for g in got]
    if any(a < b_ for a, b_ in zip(ts, ts[1:])):
        viols.append(("read-not-newest-first", f"{where} timestamps={ts[:8]}"))
    truncated = False
    if limit == 0:
        if got:
            viols.append(("limit-0-returned-events", f"{where} n={len(got)}"))
    elif limit < 0:
        miss = must - set(ids)
        if miss:
            viols.append(("read-misses-intersecting-event", f"{where} events={[stored[i][:2] for i in miss][:4]}"))
    else:
        if len(got) > limit:
            viols.append(("read-exceeds-limit", f"{where} n={len(got)}"))
        miss = must - set(ids)
        if len(got) < limit and miss:
            viols.append(("read-misses-intersecting-event", f"{where} (limit not reached) events={[stored[i][:2] for i in miss][:4]}"))
        elif miss:
            truncated = True
            lo = min(stored[i][0] for i in ids)
            newer = [i for i in miss if stored[i][0] > lo]
            if newer:
                viols.append(("limit-does-not-keep-the-newest", f"{where} kept_min_ts={lo} dropped_newer={[stored[i][:2] for i in newer][:4]}"))
    # each returned event is the stored event, possibly cut to the window, and nothing else
    clipped = 0
    for (i, gs, gd, gdata) in got:
        s, e, data = stored[i]
        ge = gs + gd
        if gdata != data:
            viols.append(("read-returns-changed-data", f"{where} id={i}"))
        ok_s = gs == s or (ws is not None and s < ws + TAU and abs(gs - max(s, ws)) <= TAU)
        ok_e = ge == e or (we is not None and e > we - TAU and abs(ge - min(e, we)) <= TAU)
        if backend == "peewee":
            # "on the one backend that clips, each returned event is the stored event cut to the window": there an event
            # that reaches out of the window by more than the edge tolerance must come back cut, on whichever side a
            # bound was given
            ok_s = ok_s and (ws is None or s >= ws - TAU or abs(gs - ws) <= TAU)
            ok_e = ok_e and (we is None or e <= we + TAU or abs(ge - we) <= TAU)
        if not (ok_s and ok_e):
            viols.append(("returned-event-is-not-the-stored-event-cut-to-the-window",
                          f"{where} stored=({s},{e}) returned=({gs},{ge})"))
        if (gs, ge) != (s, e):
            clipped += 1
    if count is not None and not (len(must) <= count <= len(may)):
        viols.append(("count-disagrees-with-window", f"{where} count={count} must={len(must)} may={len(may)} "
                                                     f"events={[v[:2] for v in stored.values()][:6]}"))
    W = (ws if ws is not None else -1, we if we is not None else 2 * MAX_US)
    rel = "".join(sorted({allen((s, e), W) for s, e, _ in stored.values()}))
    partial = any((ws is not None and s < ws < e) or (we is not None and s < we < e) for s, e, _ in stored.values())
    lim = "neg" if limit < 0 else ("0" if limit == 0 else ("1" if limit == 1 else "n"))
    return (rel, lim, ws is None, we is None, truncated), (partial or truncated), clipped


def run_case(case, ctx):
    backend = case["backend"]
    viols = []
    with Store(backend, ctx.tmp) as st:
        nb = case.get("neighbour")
        if nb and nb["when"] == "before":
            st.ds.create_bucket(nb["name"], type="t", client="c", hostname="h")
        b = st.ds.create_bucket(case.get("name", "w"), type="t", client="c", hostname="h")
        if nb and nb["when"] == "after":
            st.ds.create_bucket(nb["name"], type="t", client="c", hostname="h")
        if nb:
            other = [mk_event(dict(s, data={"neighbour": i})) for i, s in enumerate(case["events"])]
            if other:
                st.ds[nb["name"]].insert(other[: max(1, len(other) // 2)])
            for e in other[max(1, len(other) // 2):]:
                st.ds[nb["name"]].insert(e)
            ctx.count("cases_with_a_neighbouring_bucket")
        evs = [mk_event(s) for s in case["events"]]
        half = len(evs) // 2
        b.insert(evs[:half])            # bulk
        for e in evs[half:]:
            b.insert(e)                 # single
        stored = {}
        for e in b.get(-1):
            stored[e.id] = (dt_us(e.timestamp), dt_us(e.timestamp) + td_us(e.duration), canon(e.data))
        if len(stored) != len(evs):
            return [("setup-lost-events", f"{len(stored)} of {len(evs)}")], dict(sig=("setup",), nontrivial=False)
        sigs = []
        nontriv = 0
        queries = list(case["queries"])
        muts = {m["before"]: m for m in case.get("muts", [])}
        qi = -1
        while qi + 1 < len(queries):
            qi += 1
            m = muts.pop(qi, None) if qi in muts else None
            if m is not None and stored:
                ev = mk_event(m["ev"])
                want = (dt_us(ev.timestamp), dt_us(ev.timestamp) + td_us(ev.duration), canon(ev.data))
                ids_sorted = sorted(stored)
                target = ids_sorted[m["pick"] % len(ids_sorted)]
                if m["op"] == "insert":
                    r = b.insert(ev)
                    stored[r.id] = want
                elif m["op"] == "delete":
                    b.delete(target)
                    del stored[target]
                elif m["op"] == "replace":
                    b.replace(target, ev)
                    stored[target] = want
                else:
                    top = b.get(1)
                    if top:
                        b.replace_last(ev)
                        stored[top[0].id] = want
                ctx.count("writes_between_reads")
                queries.insert(qi, dict(case["queries"][m["repeat"]]))     # the same window again, now after a write
            q = queries[qi]
            kw = {}
            if q["ws"] is not None:
                kw["starttime"] = mk_dt(q["ws"], q["wo"], q.get("wz"))
            if q["we"] is not None:
                kw["endtime"] = mk_dt(q["we"], q["eo"], q.get("ez"))
            got = [(e.id, dt_us(e.timestamp), td_us(e.duration), canon(e.data)) for e in b.get(q["limit"], **kw)]
            count = b.get_eventcount(**kw)
            before = len(viols)
            r = judge_read(stored, q, got, count, viols, backend)
            ctx.count(f"reads.{backend}")
            ctx.count("counts_checked")
            if r:
                sig, nt, clipped = r
                ctx.count("clipped_events_checked", clipped)
                if nt:
                    nontriv += 1
                    ctx.sigs.add(canon([backend] + list(sig)))
            if len(viols) > before + 3:
                break
    nq = len(queries) if "queries" in dir() else len(case["queries"])
    return viols, dict(sig=None, nontrivial=nontriv > 0, weight=nq, nontrivial_weight=nontriv)
