"""C08 — heartbeat merging is the pulsetime hull rule; reduction is a normal form."""
import copy
from datetime import timedelta

from .. import hooks
from ..gen import ZONE_TRANSITIONS, big_n, canon, dt_us, floor_ms, mk_event, rand_grid, td_us, zones_available
from ..model import ref_heartbeat_merge, ref_reduce
from ._tx import exc_viol, tmod

ID = "C08"
LEVEL = "exploration"
ANCHOR_FILES = ["aw_transform/heartbeats.py"]
REQUIRED_COUNTERS = ["monitor.heartbeat_merge", "monitor.heartbeat_reduce"]
RULE = ("pairs/lists of events on a small ms grid (any order, overlaps, zero/negative durations, equal timestamps, "
        "boundary equalities s2 == e1+p ± 1µs/1ms) × pulsetimes {0, fractional, large}; non-trivial = data equal for "
        "at least one neighbouring pair; a tenth of the cases hand the timestamps in as aware datetimes of an IANA zone with DST rules, "
        "hours around a transition; signature = (data-equal, sign(s2-s1), sign(s2-(e1+p)), sign(d1), sign(e2-e1)) "
        "per pair, merge-decision string per list")
ASSUMPTIONS = ["pulsetimes are generated so that timedelta(seconds=p) is exact at µs",
               "data equality is Python equality of the data objects (as the code under test compares them): pools avoid the "
               "1/1.0/True ambiguity, and include tuple-vs-list and int-vs-str-key partners that are unequal although they "
               "would serialise to the same JSON, and partners that are equal although spelt differently (1 / 1.0 / true, 0.0 / -0.0): these merge, and the result must carry the first one's spelling; equal data is also handed in with its keys filled in a different order"]


def plan(tier):
    return dict(workers=16, cases=240_000 if tier == "quick" else 6_000_000,
                time_s=25 if tier == "quick" else 400)


class Data:
    """An event's data compared the way the statement means it: Python equality of the data objects themselves
    (a tuple is not a list, an int key is not a str key). Canonical JSON is only used to print it."""

    def __init__(self, data):
        self.data = copy.deepcopy(data)

    def __eq__(self, other):
        return isinstance(other, Data) and self.data == other.data

    def __ne__(self, other):
        return not self.__eq__(other)

    __hash__ = None

    def __repr__(self):
        return canon(_printable(self.data))

    def exact(self):
        """the data as spelt: equal objects of different types or signs (1 / 1.0 / True, 0.0 / -0.0) are told apart.
        Which events merge is decided by Python equality; WHOSE data the merged event carries is judged with this."""
        return _exact(self.data)


def _exact(x):
    if isinstance(x, dict):
        return ("dict", tuple(sorted(((type(k).__name__, repr(k)), _exact(v)) for k, v in x.items())))
    if isinstance(x, (list, tuple)):
        return (type(x).__name__, tuple(_exact(v) for v in x))
    return (type(x).__name__, repr(x))


def _same(a, b):
    """two (ts, dur, Data) triples: same interval and the same data as spelt"""
    return a[:2] == b[:2] and a[2].exact() == b[2].exact()


def _printable(x):
    if isinstance(x, dict):
        return {(k if isinstance(k, str) else f"<{type(k).__name__} key {k!r}>"): _printable(v) for k, v in x.items()}
    if isinstance(x, tuple):
        return {"<tuple>": [_printable(v) for v in x]}
    if isinstance(x, list):
        return [_printable(v) for v in x]
    return x


def _materialise(x):
    """case data is JSON; {"$tuple": [...]} and {"$intkeys": {...}} stand for values JSON cannot carry"""
    if isinstance(x, dict):
        if set(x) == {"$tuple"}:
            return tuple(_materialise(v) for v in x["$tuple"])
        if set(x) == {"$intkeys"}:
            return {int(k): _materialise(v) for k, v in x["$intkeys"].items()}
        return {k: _materialise(v) for k, v in x.items()}
    if isinstance(x, list):
        return [_materialise(v) for v in x]
    return x


def _mk(spec):
    e = mk_event(spec)
    e.data = _materialise(e.data)
    return e


def _t(e):
    return (dt_us(e.timestamp), td_us(e.duration), Data(e.data))


def _pulse_us(p):
    us = td_us(timedelta(seconds=p))
    return us


def sgn(x):
    return (x > 0) - (x < 0)


# ------------------------------------------------------------------ oracles

def pre_merge(last_event, heartbeat, pulsetime):
    return True


def post_merge(old, oldkw, result, exc, after, afterkw):
    last, hb, p = old[0], old[1], (old[2] if len(old) > 2 else oldkw["pulsetime"])
    if exc is not None:
        return exc_viol("merge", exc)
    pu = _pulse_us(p)
    want = ref_heartbeat_merge(_t(last), _t(hb), pu)
    if want is None:
        if result is not None:
            return [("merge-should-not-merge", f"last={_t(last)} hb={_t(hb)} pulse_us={pu} got={_t(result)}")]
        return []
    if result is None:
        return [("merge-should-merge", f"last={_t(last)} hb={_t(hb)} pulse_us={pu} want={want}")]
    got = _t(result)
    if got != want:
        return [("merge-wrong-hull", f"last={_t(last)} hb={_t(hb)} pulse_us={pu} want={want} got={got}")]
    if not _same(got, want):
        return [("merged-event-does-not-carry-the-first-events-data", f"last={_t(last)} hb={_t(hb)} got={got}")]
    # never shortens or moves
    if got[0] != _t(last)[0] or got[0] + got[1] < _t(last)[0] + _t(last)[1]:
        return [("merge-shortened-or-moved", f"last={_t(last)} got={got}")]
    return []


def post_reduce(old, oldkw, result, exc, after, afterkw):
    events, p = old[0], (old[1] if len(old) > 1 else oldkw["pulsetime"])
    if exc is not None:
        return exc_viol("reduce", exc)
    pu = _pulse_us(p)
    ins = [_t(e) for e in events]
    want = ref_reduce(ins, pu)
    got = [_t(e) for e in result]
    v = []
    if got != want:
        v.append(("reduce-not-left-fold", f"in={ins[:8]} pulse_us={pu} want={want[:8]} got={got[:8]}"))
    elif not all(_same(a, b) for a, b in zip(got, want)):
        v.append(("reduced-event-does-not-carry-its-first-members-data", f"in={ins[:8]} pulse_us={pu} want={want[:8]} got={got[:8]}"))
    # normal form, stated independently of the fold
    for a, b in zip(got, got[1:]):
        if ref_heartbeat_merge(a, b, pu) is not None:
            v.append(("reduce-consecutive-mergeable", f"{a} {b} pulse_us={pu}"))
            break
    for (s, d, x) in ins:
        if d >= 0 and not any(x == gx and gs <= s and s + d <= gs + gd for gs, gd, gx in got):
            v.append(("reduce-lost-cover", f"input {(s, d, x)} not inside any output of {got[:8]}"))
            break
    return v


MON = {}


def monitors():
    """(module, name, pre, post) for installation by any workload."""
    hb = tmod("heartbeats")
    return [(hb, "heartbeat_merge", pre_merge, post_merge), (hb, "heartbeat_reduce", None, post_reduce)]


def setup(ctx):
    for m, n, pre, post in monitors():
        MON[n] = hooks.Monitor(m, n, pre, post).install()


def teardown(ctx):
    for n, mon in MON.items():
        ctx.count(f"monitor.{n}", mon.evaluations)
        mon.uninstall()


# ------------------------------------------------------------------ generator

_DATA = [{}, {"label": "a"}, {"label": "b"}, {"label": "a", "n": [1, 2]}, {"app": "x", "title": "ü"}]
# pairs that are unequal as Python data although they would print as the same JSON
_NEAR = [({"tags": ["work", "py"]}, {"tags": {"$tuple": ["work", "py"]}}),
         ({"m": {"1": "x"}}, {"m": {"$intkeys": {"1": "x"}}}),
         ({"label": "a", "n": [1, 2]}, {"label": "a", "n": {"$tuple": [1, 2]}})]
# pairs that ARE equal as Python data (so they merge) although they are spelt differently: the merged event keeps the first's
_SPELT = [({"count": 1}, {"count": 1.0}), ({"active": True}, {"active": 1}), ({"z": 0.0, "l": "a"}, {"z": -0.0, "l": "a"}),
          ({"n": [1, {"k": 0}]}, {"n": [True, {"k": False}]}), ({"label": "a", "v": 2.0}, {"label": "a", "v": 2})]
_PULSES_US = [0, 1, 999, 1000, 1500, 10**6, 5 * 10**6, 60 * 10**6, 10**9, 123457, 2 * 10**6 + 500000]


def _reordered(rng, data):
    if len(data) > 1 and rng.random() < 0.5:
        return dict(reversed(list(data.items())))
    return data


_OFF_GRID = [2 / 3, 1 / 3, 0.1 + 0.2, 1 / 7, 3.141592653589793, 1e-7, 0.0000005, 0.0000015, 1.0000004, 2.9999996, 0.6666665, 10 / 3]


def _pulse(rng):
    if rng.random() < 0.1:
        # a pulsetime that is not a whole number of microseconds: the window is what timedelta(seconds=p) makes of it, in
        # heartbeat_merge and in heartbeat_reduce alike
        p = rng.choice(_OFF_GRID)
        return p, td_us(timedelta(seconds=p))
    pu = rng.choice(_PULSES_US) if rng.random() < 0.8 else rng.randrange(0, 20 * 10**6)
    p = pu / 10**6
    if td_us(timedelta(seconds=p)) != pu:
        pu = pu - pu % 1000
        p = pu / 10**6
    if rng.random() < 0.2 and pu % 10**6 == 0:
        p = pu // 10**6      # int pulsetime
    return p, pu


def gen_case(rng, ctx):
    base, unit = rand_grid(rng)
    p, pu = _pulse(rng)
    zone = None
    if rng.random() < 0.12 and zones_available():
        # timestamps handed in as aware datetimes of a DST zone, hours around a transition
        zone = rng.choice(sorted(ZONE_TRANSITIONS))
        unit = rng.choice([60 * 10**6, 1800 * 10**6, 3600 * 10**6])
        base = rng.choice(ZONE_TRANSITIONS[zone]) * 10**6 - rng.randrange(0, 6) * unit
        if rng.random() < 0.5:
            pu = rng.choice([0, 500000, 60 * 10**6, 3600 * 10**6])
            p = pu / 10**6
    if rng.random() < 0.75:
        s1 = rng.randrange(0, 12)
        d1 = rng.choice([0, 0, 1, 2, 3, 5, -1, -2]) * unit + rng.choice([0, 0, 0, 1, -1, 999, 500])
        e1end = base + s1 * unit + d1
        r = rng.random()
        if r < 0.45:   # boundary: s2 around e1 + p
            if rng.random() < 0.4 and d1 >= 0:
                # the first event ends so that end + pulsetime falls on a whole millisecond: the heartbeat (whose start is
                # cut to the millisecond) can then sit EXACTLY on the far edge of the window
                d1 += (-(e1end + pu)) % 1000
                e1end = base + s1 * unit + d1
            s2 = e1end + pu + rng.choice([0, 0, 1000, -1000, 1, -1, 2000, -2000])
            s2 = floor_ms(s2) if rng.random() < 0.8 else s2
        elif r < 0.6:
            s2 = base + s1 * unit + rng.choice([0, 0, -1000, 1000])
        elif r < 0.64:
            # far outside the window, but by whole days / hours / minutes plus a remainder around the pulsetime
            s2 = e1end + rng.choice([86400, 86400, 2 * 86400, 7 * 86400, 3600, 60]) * 10**6 + rng.choice([0, 1000, pu, pu - 1000, pu // 2])
            s2 = floor_ms(s2)
        else:
            s2 = base + rng.randrange(0, 14) * unit
        d2 = rng.choice([0, 0, 1, 2, 4, 9, -1]) * unit + rng.choice([0, 0, 1, 999])
        x1 = rng.choice(_DATA)
        x2 = x1 if rng.random() < 0.7 else rng.choice(_DATA)
        if x1 == x2 and len(x1) > 1 and rng.random() < 0.5:
            x2 = dict(reversed(list(x2.items())))      # equal data whose keys were filled in another order
        if rng.random() < 0.08:
            x1, x2 = rng.choice(_SPELT)
            if rng.random() < 0.5:
                x1, x2 = x2, x1
        if rng.random() < 0.06:
            x1, x2 = rng.choice(_NEAR)
            if rng.random() < 0.5:
                x1, x2 = x2, x1
        z1 = zone
        z2 = zone if rng.random() < 0.5 else None
        return dict(kind="pair", p=p, e1=dict(ts=base + s1 * unit, dur=d1, data=x1, zone=z1),
                    e2=dict(ts=max(0, s2), dur=d2, data=x2, zone=z2))
    n = big_n(rng, rng.randrange(0, 9))
    evs = []
    pos = rng.randrange(0, 5)
    for _ in range(n):
        d = rng.choice([0, 0, 1, 1, 2, 3, -1]) * unit
        evs.append(dict(ts=base + pos * unit, dur=d, data=_reordered(rng, rng.choice(_DATA[:5] if rng.random() < 0.3 else _DATA[:3])),
                        zone=zone if rng.random() < 0.7 else None))
        step = rng.choice([0, 1, 1, 2, 3, -1, -2, 5])
        pos = max(0, pos + step)
        if rng.random() < 0.3:   # land exactly on the pulse boundary of the previous end
            if evs[-1]["dur"] >= 0 and rng.random() < 0.5:
                evs[-1]["dur"] += (-(evs[-1]["ts"] + evs[-1]["dur"] + pu)) % 1000      # end + pulsetime on a whole millisecond
            nxt = evs[-1]["ts"] + evs[-1]["dur"] + pu + rng.choice([0, 1000, -1000])
            if nxt > 0 and rng.random() < 0.5:
                evs.append(dict(ts=floor_ms(nxt), dur=rng.choice([0, unit]), data=evs[-1]["data"]))
    if rng.random() < 0.2:
        rng.shuffle(evs)
    return dict(kind="list", p=p, events=evs)


def run_case(case, ctx):
    p = case["p"]
    if case["kind"] == "pair":
        e1, e2 = _mk(case["e1"]), _mk(case["e2"])
        t1, t2 = _t(e1), _t(e2)
        pu = _pulse_us(p)
        _, _, viols, _ = MON["heartbeat_merge"].judge((e1, e2, p))
        sig = ("pair", t1[2] == t2[2], sgn(t2[0] - t1[0]), sgn(t2[0] - (t1[0] + t1[1] + pu)), sgn(t1[1]),
               sgn(t2[0] + t2[1] - t1[0] - t1[1]), pu == 0)
        return viols, dict(sig=sig, nontrivial=t1[2] == t2[2])
    events = [_mk(s) for s in case["events"]]
    ins = [_t(e) for e in events]
    pu = _pulse_us(p)
    result, exc, viols, _ = MON["heartbeat_reduce"].judge((events, p))
    if exc is None and not viols:
        # reducing again changes nothing (the real function, on a copy of its own output)
        again = tmod("heartbeats").heartbeat_reduce(copy.deepcopy(result), p)
        if [_t(e) for e in again] != [_t(e) for e in result]:
            viols = [("reduce-not-idempotent", f"first={[_t(e) for e in result][:8]} again={[_t(e) for e in again][:8]}")]
    dec = "".join("m" if ref_heartbeat_merge(a, b, pu) is not None else "-" for a, b in zip(ins, ins[1:]))
    return viols, dict(sig=("list", dec, pu == 0), nontrivial="m" in dec)
