"""Shared machinery for the crash properties (C06, C18): history interpreter on a file-backed store,
SQL statement journal, writer view vs committed (observer) view, state decoding."""
import json
import os
import sqlite3

from ..backends import Store
from ..gen import mk_dt, mk_event

MARK = "/*awverif*/"

SQL = {
    "sqlite": dict(
        events=f"SELECT {MARK} e.id, b.id, e.starttime, e.endtime, e.datastr, e.bucketrow FROM events e "
               "LEFT JOIN buckets b ON e.bucketrow = b.rowid",
        buckets=f"SELECT {MARK} id, name, type, client, hostname, created, datastr FROM buckets",
    ),
    "peewee": dict(
        events=f"SELECT {MARK} e.id, b.id, e.timestamp, e.duration, e.datastr, e.bucket_id FROM eventmodel e "
               "LEFT JOIN bucketmodel b ON e.bucket_id = b.key",
        buckets=f"SELECT {MARK} id, name, type, client, hostname, created, datastr FROM bucketmodel",
    ),
}


def decode(conn, backend):
    """(state, ids): state = frozenset of rows identifying every bucket row and every event row by content;
    ids = {(bucket, uid): db id}."""
    rows = set()
    ids = {}
    for r in conn.execute(SQL[backend]["buckets"]):
        rows.add(("B",) + tuple(r))
    for (eid, bid, a, b_, datastr, brow) in conn.execute(SQL[backend]["events"]):
        try:
            uid = json.loads(datastr).get("uid")
        except Exception:  # noqa: BLE001
            uid = datastr
        owner = bid if bid is not None else f"#orphan-of-row-{brow}"
        rows.add(("E", owner, uid, str(a), str(b_)))
        ids[(owner, uid)] = eid
    return frozenset(rows), ids


def is_event_write(stmt: str) -> bool:
    s = stmt.lstrip().upper()
    return (s.startswith("INSERT INTO EVENTS") or s.startswith("UPDATE EVENTS") or s.startswith("DELETE FROM EVENTS")
            or s.startswith('INSERT INTO "EVENTMODEL"') or s.startswith('UPDATE "EVENTMODEL"')
            or s.startswith('DELETE FROM "EVENTMODEL"'))


def is_write(stmt: str) -> bool:
    s = stmt.lstrip().upper()
    return s.startswith(("INSERT", "UPDATE", "DELETE"))


class HistoryRunner:
    """Interprets a JSON history against a file-backed store. Targets are addressed by uid; the uid -> id map
    comes from the writer's own view (a marked SELECT on the store's connection: it neither commits nor is it
    counted as a statement of the history)."""

    def __init__(self, backend, path, tmp, lazy=True):
        kw = {}
        if backend == "sqlite" and not lazy:
            kw["enable_lazy_commit"] = False
        self.backend = backend
        self.store = Store(backend, tmp, path=path, **kw)
        self.ds = self.store.ds
        self.storage = self.store.storage
        self.path = path
        self.tmp = tmp
        self.other, self.other_n = None, 0
        self.on_stmt = None      # callback(stmt)
        self.writer = self._writer()
        self.writer.set_trace_callback(self._trace)
        self.view, self.ids = decode(self.writer, backend)

    def _writer(self):
        return self.storage.conn if self.backend == "sqlite" else self.storage.db.connection()

    def _trace(self, stmt):
        if MARK in stmt:
            return
        if self.on_stmt:
            self.on_stmt(stmt)

    def refresh(self):
        self.view, self.ids = decode(self.writer, self.backend)
        return self.view

    def live_uids(self, bucket):
        return sorted(u for (b, u) in self.ids if b == bucket and isinstance(u, int))

    def resolve(self, bucket, pick):
        live = self.live_uids(bucket)
        if not live:
            return None, None
        u = live[pick % len(live)]
        return u, self.ids[(bucket, u)]

    def buckets(self):
        return sorted(r[1] for r in self.view if r[0] == "B")

    def run_op(self, op):
        """Executes one operation; returns a description of its elementary steps (for intermediate states)."""
        ds = self.ds
        kind = op["op"]
        b = op.get("b")
        if kind == "other":
            # something happens in ANOTHER lazily-committing sqlite store (its own file) of the same process; it is no
            # operation of this history: nothing of this store changes, is flushed or gets any younger by it
            what = op.get("what", "insert")
            if self.other is None or what == "reopen":
                if self.other is not None:
                    self.other.close(remove=False)
                self.other = Store("sqlite", self.tmp, path=self.path + ".other.db")
                if "o" not in self.other.ds.buckets():
                    self.other.ds.create_bucket("o", type="t", client="c", hostname="h")
            ob = self.other.ds["o"]
            if what == "insert":
                self.other_n += 1
                ob.insert(mk_event(dict(ts=10**15 + self.other_n * 1000, dur=0, data={"uid": -self.other_n})))
            elif what == "read":
                ob.get(1)
            return dict(kind="other", what=what)
        if kind == "fail":
            # an operation the store must refuse; whatever it raises, it must not undo earlier acknowledged writes
            what = op["what"]
            try:
                if what == "create_existing" and b in self.buckets():
                    ds.create_bucket(b, type="t", client="c", hostname="h")
                elif what == "delete_missing_bucket":
                    ds.delete_bucket("no-such-bucket")
                elif what == "update_missing_bucket":
                    ds.update_bucket("no-such-bucket", name="x")
                elif what == "upsert_unbindable" and b in self.buckets():
                    e = mk_event(op["ev"])
                    e.id = 2**63
                    ds[b].insert([mk_event(op["ev2"]), e])
                elif what == "bulk_unserializable" and b in self.buckets():
                    e = mk_event(op["ev"])
                    e.data["bad"] = {1, 2}
                    ds[b].insert([mk_event(op["ev2"]), e])
                elif what == "insert_unserializable" and b in self.buckets():
                    e = mk_event(op["ev"])
                    e.data["bad"] = {1, 2}        # a set is not JSON
                    ds[b].insert(e)
                else:
                    return None
                return dict(kind=kind, raised=None, what=what)
            except Exception as ex:  # noqa: BLE001
                return dict(kind=kind, raised=type(ex).__name__, what=what)
        if kind == "create_bucket":
            if b in self.buckets():
                return None
            ds.create_bucket(b, type="t", client="c", hostname="h", name=op.get("name"), data=op.get("data"),
                             created=mk_dt(op.get("created", 10**15)))
            return dict(kind=kind)
        if b not in self.buckets():
            return None
        if kind == "update_bucket":
            ds.update_bucket(b, name=op["name"], data=op["data"])
            return dict(kind=kind)
        if kind == "delete_bucket":
            ds.delete_bucket(b)
            return dict(kind=kind, bucket=b)
        bk = ds[b]
        if kind == "insert":
            bk.insert(mk_event(op["ev"]))
            return dict(kind=kind, steps=[("add", op["ev"]["data"]["uid"])])
        if kind == "bulk":
            bk.insert([mk_event(s) for s in op["evs"]])
            return dict(kind=kind, steps=[("add", s["data"]["uid"]) for s in op["evs"]])
        if kind == "upsert":
            evs, steps, used = [], [], set()
            for it in op["items"]:
                e = mk_event(it["ev"])
                if it.get("pick") is not None:
                    u, i = self.resolve(b, it["pick"])
                    if i is None or i in used:
                        continue
                    used.add(i)
                    e.id = i
                    steps.append(("rewrite", u, it["ev"]["data"]["uid"]))
                else:
                    steps.append(("add", it["ev"]["data"]["uid"]))
                evs.append(e)
            bk.insert(evs)
            return dict(kind=kind, steps=steps)
        if kind == "insert_with_id":
            # the single-event form of insert, given an event that carries the id of a live event (what an earlier
            # insert handed back, edited): whether the store adds or rewrites, it is one acknowledged event write
            u, i = self.resolve(b, op["pick"])
            if i is None:
                return None
            e = mk_event(op["ev"])
            e.id = i
            bk.insert(e)
            return dict(kind=kind, targets=[u])
        if kind == "replace":
            u, i = self.resolve(b, op["pick"])
            if i is None:
                return None
            bk.replace(i, mk_event(op["ev"]))
            return dict(kind=kind, targets=[u])
        if kind == "replace_last":
            if not self.live_uids(b):
                if not op.get("empty_ok"):
                    return None
                # there is no newest event to replace: refused (memory, peewee) or a silent no-op (sqlite) - either way it is a
                # write call, and whatever it does must obey the rules for writes
                try:
                    bk.replace_last(mk_event(op["ev"]))
                    return dict(kind=kind, on_empty=True)
                except Exception as ex:  # noqa: BLE001
                    return dict(kind=kind, on_empty=True, raised=type(ex).__name__)
            bk.replace_last(mk_event(op["ev"]))
            return dict(kind=kind)
        if kind == "delete":
            u, i = self.resolve(b, op["pick"])
            if i is None:
                return None
            bk.delete(i)
            return dict(kind=kind, targets=[u])
        if kind == "delete_missing":
            bk.delete(10**9 + op.get("n", 0))
            return dict(kind=kind)
        if kind == "read":
            how = op.get("how", "get")
            if how == "get":
                bk.get(-1)
            elif how == "get1":
                bk.get(1)
            elif how == "count":
                bk.get_eventcount()
            else:
                bk.get_by_id(1)
            return dict(kind=kind)
        raise ValueError(kind)

    def close(self, remove=False):
        try:
            self.writer.set_trace_callback(None)
        except Exception:  # noqa: BLE001
            pass
        self.store.close(remove=remove)
        if self.other is not None:
            self.other.close(remove=True)
            self.other = None


def observer_state(path, backend, timeout=0.2):
    """Committed state as a second read-only connection sees it; None when it cannot be read."""
    try:
        conn = sqlite3.connect(f"file:{__import__('urllib.parse').parse.quote(path)}?mode=ro", uri=True, timeout=timeout)
    except sqlite3.Error:
        return None
    try:
        return decode(conn, backend)[0]
    except sqlite3.Error:
        return None
    finally:
        conn.close()


def remove_db(path):
    for suf in ("", "-wal", "-shm", "-journal", ".other.db", ".other.db-wal", ".other.db-shm"):
        try:
            os.unlink(path + suf)
        except FileNotFoundError:
            pass
