"""C04 — operations addressed to one bucket never change any other bucket."""
from ..backends import BACKENDS, Store
from ..gen import bucket_ids, canon, mk_event, rand_grid
from ._st import dump_store, raw_others, raw_view

ID = "C04"
LEVEL = "exploration"
ANCHOR_FILES = ["aw_datastore/storages/memory.py", "aw_datastore/storages/sqlite.py", "aw_datastore/storages/peewee.py"]
REQUIRED_COUNTERS = ["ops.memory", "ops.sqlite", "ops.peewee", "frame_checks", "quiet_frame_checks", "ops_with_foreign_id",
                     "ops_on_deleted_bucket_id"]
RULE = ("per case one store with 2-4 buckets (plain ids, or ids that differ only in letter case / LIKE wildcards / blanks / Unicode composition / last character) created in a generated order and populated from one shared pool of start and "
        "end instants (so instants coincide across buckets); then 8-25 single operations addressed to one bucket: "
        "insert, insert of an event carrying an id, bulk insert, bulk upsert, replace, replace_last, delete, "
        "update_bucket, delete_bucket + re-create, and operations addressed to a bucket that was deleted while a handle to it is "
        "still held and a NEW bucket has been created since - with ids drawn from the addressed bucket, from ANOTHER bucket "
        "(live or deleted there) never used, or unbindable (2**63, -5, 'abc': the operation raises midway); before and after each operation every other bucket is dumped "
        "(events + metadata) and compared - in half of the cases through API reads, in the other half ('quiet') through "
        "the writer connection's own uncommitted view, because an API read commits on the lazy store and would hide "
        "lost pending writes; exceptions are an accepted outcome; non-trivial = the operation carries a "
        "foreign id or an event whose start/end coincides with an event of another bucket; signature = (backend, op "
        "kind, id origin, coincidence kind, other bucket created earlier/later, other bucket empty?)")
ASSUMPTIONS = ["only the other buckets are compared; what happens inside the addressed bucket is C02's business"]


def plan(tier):
    return dict(workers=16, cases=64_000 if tier == "quick" else 2_000_000, time_s=45 if tier == "quick" else 900)


def gen_case(rng, ctx):
    backend = BACKENDS[rng.randrange(3)]
    nb = rng.choice([2, 2, 3, 4])
    base, unit = rand_grid(rng)
    pool_s = [base + p * unit for p in sorted(rng.sample(range(0, 10), 4))]
    pool_e = [base + p * unit for p in sorted(rng.sample(range(3, 14), 3))] + pool_s[-2:]
    uid = [0]

    def ev():
        uid[0] += 1
        s = rng.choice(pool_s)
        later = [x for x in pool_e if x >= s]
        e = s if rng.random() < 0.25 or not later else rng.choice(later)
        return dict(ts=s, dur=e - s, data={"uid": uid[0]})

    setup = [[ev() for _ in range(rng.choice([0, 1, 2, 3, 4]))] for _ in range(nb)]
    ops = []
    for _ in range(rng.randrange(8, 26)):
        a = rng.randrange(nb)
        origin = rng.choice(["own", "foreign", "foreign", "foreign", "foreign-deleted", "never", "huge", "negative", "str"])
        idref = dict(origin=origin, other=rng.randrange(nb), pick=rng.randrange(100))
        if origin in ("own", "foreign") and rng.random() < 0.2:
            idref["as_str"] = True          # the id in the other form Id allows: "17" for 17
        kind = rng.choice(["insert", "insert_with_id", "insert_with_id", "bulk", "upsert", "upsert", "replace", "replace",
                           "replace_last", "replace_last", "delete", "delete", "update_bucket", "recreate_bucket", "deleted_target", "create_again"])
        op = dict(op=kind, b=a, id=idref, ev=ev())
        if kind == "deleted_target":
            op["sub"] = rng.choice(["insert", "insert", "replace_last", "delete_bucket", "delete_bucket", "update_bucket", "bulk", "delete"])
            op["fill"] = [ev() for _ in range(rng.choice([0, 1, 3]))]
        if kind in ("bulk", "upsert"):
            op["evs"] = [ev() for _ in range(rng.choice([1, 2, 3]))]
            op["ids"] = [dict(origin=rng.choice(["own", "foreign", "foreign", "never", "none", "none", "huge", "str"]),
                              other=rng.randrange(nb), pick=rng.randrange(100), as_str=rng.random() < 0.25) for _ in op["evs"]]
        ops.append(op)
    if rng.random() < 0.2:
        # a burst around the NEWEST event of one bucket, with a write to another bucket in the middle: whatever a store
        # remembers about "the newest event of A" must not end up pointing into B
        a, b2 = rng.sample(range(nb), 2) if nb > 1 else (0, 0)
        newest = dict(origin="own", other=b2, pick=-1, as_str=rng.random() < 0.5)
        burst = [dict(op="insert", b=a, id=dict(origin="none", other=b2, pick=0), ev=ev()),
                 dict(op="replace_last", b=a, id=dict(origin="none", other=b2, pick=0), ev=ev()),
                 dict(op="delete", b=a, id=newest, ev=ev()),
                 dict(op="insert", b=b2, id=dict(origin="none", other=a, pick=0), ev=ev()),
                 dict(op="replace_last", b=a, id=dict(origin="none", other=b2, pick=0), ev=ev())]
        at = rng.randrange(0, len(ops) + 1)
        ops[at:at] = burst
    quiet = rng.random() < 0.5
    return dict(backend=backend, nb=nb, order=rng.sample(range(nb), nb), setup=setup, ops=ops, quiet=quiet,
                names=bucket_ids(rng, nb), second=(not quiet or backend == "memory") and rng.random() < 0.3)


_QUIET = {"store": None}


def _dump_one(ds, bid):
    """metadata and events of ONE bucket (a second handle on the file knows the buckets it made itself; what the other
    handle re-created since is not its business)"""
    from ._st import dump_bucket, meta_canon
    b = ds[bid]
    return (meta_canon(b.metadata()), sorted(dump_bucket(b), key=lambda t: (t[0] is None, t[0], t[1:])))


def _ids(ds, bid):
    st = _QUIET["store"]
    if st is not None:      # quiet mode: no API read (it would commit pending writes)
        _, ids = raw_view(st)
        return sorted(i for (b, _), i in ids.items() if b == bid)
    try:
        return sorted(e.id for e in ds[bid].get(-1))
    except Exception:
        return []


def _resolve(ds, bids, a, ref, deleted, never):
    """(id, origin actually used)"""
    origin = ref["origin"]
    if origin == "none":
        return None, "none"
    if origin in ("huge", "negative", "str"):
        return {"huge": 2**63, "negative": -5, "str": "abc"}[origin], origin
    others = [i for i in range(len(bids)) if i != a]
    o = others[ref["other"] % len(others)]
    if origin == "own":
        live = _ids(ds, bids[a])
        if live:
            i = live[-1] if ref["pick"] == -1 else live[ref["pick"] % len(live)]      # (-1: the highest id of the bucket)
            return (str(i), "own-as-str") if ref.get("as_str") else (i, "own")
        origin = "never"
    if origin == "foreign":
        live = _ids(ds, bids[o])
        if live:
            i = live[ref["pick"] % len(live)]
            return (str(i), "foreign") if ref.get("as_str") else (i, "foreign")
        origin = "foreign-deleted"
    if origin == "foreign-deleted":
        d = sorted(deleted.get(bids[o], ()))
        if d:
            return d[ref["pick"] % len(d)], "foreign-deleted"
    never[0] += 1
    return never[0], "never"


def run_case(case, ctx):
    backend = case["backend"]
    viols = []
    nontriv = 0
    with Store(backend, ctx.tmp) as st:
        ds = st.ds
        quiet = bool(case.get("quiet")) and backend != "memory"
        _QUIET["store"] = st if quiet else None
        bids = list(case.get("names") or [f"bk-{i}" for i in range(case["nb"])])
        for i in case["order"]:
            ds.create_bucket(bids[i], type=f"type{i}", client=f"client{i}", hostname=f"host{i}", name=f"name{i}",
                             data={"n": i, "nested": {"k": [i]}})
        for i, evs in enumerate(case["setup"]):
            if evs:
                ds[bids[i]].insert([mk_event(s) for s in evs])
        # a second Datastore object on the SAME file (a maintenance script next to the server): it has a bucket of its own,
        # created after the first one started; nothing the first one does to ITS buckets may touch it
        second, sec_skip, SEC = None, set(), "zz-bucket-of-the-second-datastore"
        if case.get("second") and backend != "memory" and not quiet:
            ds.buckets()
            for b_ in bids:
                ds[b_].get(1)                              # (reads: nothing of the first handle is left pending)
            second = Store(backend, ctx.tmp, path=st.path)
            sb = second.ds.create_bucket(SEC, type="ts", client="cs", hostname="hs", data={"second": True})
            sb.insert([mk_event(dict(s_, data={"uid": 9000 + j})) for j, s_ in enumerate((case["setup"][0] or [case["ops"][0]["ev"]])[:3])])
            sb.get(1)
            sec_skip = {SEC}
            sec0 = _dump_one(second.ds, SEC)
            ctx.count("histories_next_to_a_second_datastore_on_the_same_file")
        shared = [None]
        deleted = {}
        never = [10**8]
        created_rank = {bids[i]: r for r, i in enumerate(case["order"])}
        for k, op in enumerate(case["ops"]):
            a = op["b"]
            A = bids[a]
            kind = op["op"]
            if kind == "deleted_target":
                # A is deleted while a handle to it is still held, a NEW bucket is created (it may inherit A's row id /
                # key), then an operation is addressed to the deleted A: it must be rejected or change nothing elsewhere
                try:
                    stale = ds[A]
                    ds.delete_bucket(A)
                except Exception:  # noqa: BLE001 - A did not exist any more
                    continue
                fresh = f"bk-new-{k}"
                ds.create_bucket(fresh, type="tn", client="cn", hostname="hn", data={"fresh": k})
                if op["fill"]:
                    ds[fresh].insert([mk_event(s_) for s_ in op["fill"]])
                bids.append(fresh)
                created_rank[fresh] = len(created_rank)
                before = raw_others(raw_view(st)[0], A) if quiet else dump_store(ds, skip={A} | sec_skip)
                sub, outcome = op["sub"], "ok"
                try:
                    if sub == "insert":
                        stale.insert(mk_event(op["ev"]))
                    elif sub == "bulk":
                        stale.insert([mk_event(op["ev"]), mk_event(op["ev"])])
                    elif sub == "replace_last":
                        stale.replace_last(mk_event(op["ev"]))
                    elif sub == "delete":
                        stale.delete(op["id"]["pick"] % 12)
                    elif sub == "delete_bucket":
                        ds.delete_bucket(A)
                    elif sub == "update_bucket":
                        ds.update_bucket(A, name="stale-update", data={"stale": True})
                except Exception as ex:  # noqa: BLE001 - "or is rejected"
                    outcome = type(ex).__name__
                    ctx.count(f"rejected.{backend}.deleted_target.{sub}")
                after = raw_others(raw_view(st)[0], A) if quiet else dump_store(ds, skip={A} | sec_skip)
                ctx.count(f"ops.{backend}")
                ctx.count("frame_checks")
                ctx.count("ops_on_deleted_bucket_id")
                nontriv += 1
                ctx.sigs.add(canon([backend, "quiet" if quiet else "loud", kind, sub, outcome != "ok", bool(op["fill"])]))
                if after != before:
                    diff = sorted(set(before) ^ set(after), key=repr)[:4] if quiet else [b_ for b_ in after if after[b_] != before.get(b_)] + [b_ for b_ in before if b_ not in after]
                    viols.append((f"{backend}:operation-on-deleted-bucket-changed-another-bucket",
                                  f"op#{k}: {A} deleted (stale handle kept), {fresh} created, then {sub} addressed to {A} "
                                  f"(outcome={outcome}) changed: {diff!r:.400}"))
                    break
                try:    # keep the history going: A exists again
                    ds.create_bucket(A, type="t3", client="c3", hostname="h3")
                except Exception:  # noqa: BLE001
                    pass
                continue
            s_us, e_us = op["ev"]["ts"], op["ev"]["ts"] + op["ev"]["dur"]
            co = set()
            if quiet:
                # the writer's own view: observing must not flush what the operations left pending
                raw_before = raw_others(raw_view(st)[0], A)
                others_before = {b_: (None, [r for r in raw_before if r[0] == "E" and r[1] == b_]) for b_ in bids if b_ != A}
                for r in raw_before:
                    if r[0] == "E":
                        if r[3] == str(s_us):
                            co.add("start")
                        if r[4] == str(e_us):
                            co.add("end")
            else:
                others_before = dump_store(ds, skip={A} | sec_skip)
                # coincidences between the event written and events elsewhere
                for bid, (_, evs) in others_before.items():
                    for (_, ts, dur, _) in evs:
                        if ts == s_us:
                            co.add("start")
                        if ts + dur == e_us:
                            co.add("end")
            origin = "-"
            outcome = "ok"
            try:
                b = ds[A]
                if kind in ("insert", "replace", "replace_last") and shared[0] is not None and (k + len(A)) % 6 == 0:
                    # the caller hands over the very Event object it gave to the previous operation - on another bucket, as
                    # likely as not (one heartbeat mirrored into two buckets): what the first bucket holds is not this object
                    reuse = shared[0]
                    ctx.count("operations_given_the_previous_operations_event_object")
                else:
                    reuse = None
                if kind == "insert":
                    shared[0] = reuse or mk_event(op["ev"])
                    b.insert(shared[0])
                elif kind == "insert_with_id":
                    i, origin = _resolve(ds, bids, a, op["id"], deleted, never)
                    e = mk_event(op["ev"])
                    e.id = i
                    b.insert(e)
                elif kind in ("bulk", "upsert"):
                    evs = []
                    for spec, ref in zip(op["evs"], op["ids"]):
                        e = mk_event(spec)
                        if kind == "upsert":
                            i, og = _resolve(ds, bids, a, ref, deleted, never)
                            e.id = i
                            if og == "foreign" or (og == "foreign-deleted" and origin != "foreign"):
                                origin = og
                            elif origin == "-":
                                origin = og
                        evs.append(e)
                    b.insert(evs)
                elif kind == "replace":
                    i, origin = _resolve(ds, bids, a, op["id"], deleted, never)
                    shared[0] = reuse or mk_event(op["ev"])
                    b.replace(i, shared[0])
                elif kind == "replace_last":
                    shared[0] = reuse or mk_event(op["ev"])
                    b.replace_last(shared[0])
                elif kind == "delete":
                    i, origin = _resolve(ds, bids, a, op["id"], deleted, never)
                    own = set(_ids(ds, A))
                    b.delete(i)
                    if i in own:
                        deleted.setdefault(A, set()).add(i)
                elif kind == "update_bucket":
                    ds.update_bucket(A, type_id="newtype", client="newclient", hostname="newhost", name="newname",
                                     data={"updated": k})
                elif kind == "create_again":
                    # a watcher creates its bucket every time it starts: refused or accepted, and whatever that does to A
                    # itself, it is an operation addressed to A - like the ones that follow it
                    had = set(_ids(ds, A))
                    try:
                        ds.create_bucket(A, type="t3", client="c3", hostname="h3")
                    finally:
                        gone = had - set(_ids(ds, A))
                        if gone:
                            deleted.setdefault(A, set()).update(gone)
                        ctx.count("creates_of_a_bucket_that_exists")
                elif kind == "recreate_bucket":
                    for i in _ids(ds, A):
                        deleted.setdefault(A, set()).add(i)
                    ds.delete_bucket(A)
                    ds.create_bucket(A, type="t2", client="c2", hostname="h2")
            except Exception as ex:  # noqa: BLE001 - "or is rejected"
                outcome = type(ex).__name__
                ctx.count(f"rejected.{backend}.{kind}")
            ctx.count(f"ops.{backend}")
            if quiet:
                ctx.count("frame_checks")
                ctx.count("quiet_frame_checks")
                raw_after = raw_others(raw_view(st)[0], A)
                if origin in ("foreign", "foreign-deleted"):
                    ctx.count("ops_with_foreign_id")
                nt = origin in ("foreign", "foreign-deleted") or bool(co)
                if nt:
                    nontriv += 1
                    others = [x for x in bids if x != A]
                    ctx.sigs.add(canon([backend, "quiet", kind, origin, sorted(co), outcome != "ok",
                                        any(created_rank[x] < created_rank[A] for x in others)]))
                if raw_after != raw_before:
                    lost = sorted(raw_before - raw_after, key=repr)[:4]
                    new = sorted(raw_after - raw_before, key=repr)[:4]
                    viols.append((f"{backend}:other-bucket-changed-in-the-writers-view",
                                  f"op#{k} {kind} on {A} (id origin={origin}, outcome={outcome}, coincides={sorted(co)}): "
                                  f"rows lost={lost!r:.400} rows new={new!r:.300}"))
                    break
                continue
            try:
                others_after = dump_store(ds, skip={A} | sec_skip)
            except Exception as ex:  # noqa: BLE001
                viols.append((f"{backend}:store-unreadable-after-op", f"op#{k} {kind}: {type(ex).__name__}: {ex}"))
                break
            ctx.count("frame_checks")
            if second is not None:
                try:
                    sec1 = _dump_one(second.ds, SEC)
                except Exception as ex:  # noqa: BLE001
                    sec1 = f"unreadable: {type(ex).__name__}: {ex}"
                if sec1 != sec0:
                    viols.append((f"{backend}:bucket-of-another-datastore-on-the-same-file-changed",
                                  f"op#{k} {kind} on {A} (outcome={outcome}): before={sec0!r:.300} after={sec1!r:.300}"))
                    break
            if origin in ("foreign", "foreign-deleted"):
                ctx.count("ops_with_foreign_id")
            nt = origin in ("foreign", "foreign-deleted") or bool(co)
            if nt:
                nontriv += 1
                others = [x for x in bids if x != A]
                ctx.sigs.add(canon([backend, kind, origin, sorted(co),
                                    any(created_rank[x] < created_rank[A] for x in others),
                                    any(not others_before[x][1] for x in others)]))
            if others_after != others_before:
                changed = [bid for bid in others_before if others_before[bid] != others_after.get(bid)]
                bid = changed[0] if changed else "?"
                kindv = "other-bucket-metadata-changed" if changed and others_before[bid][0] != others_after.get(bid, (None,))[0] \
                    else "other-bucket-events-changed"
                viols.append((f"{backend}:{kindv}",
                              f"op#{k} {kind} on {A} (id origin={origin}, outcome={outcome}, coincides={sorted(co)}) changed {bid}: "
                              f"before={others_before[bid][1]!r:.300} after={others_after.get(bid, (None, None))[1]!r:.300}"))
                break
        _QUIET["store"] = None
        if second is not None:
            second.close(remove=False)
    n = len(case["ops"])
    return viols, dict(sig=None, nontrivial=nontriv > 0, weight=n, nontrivial_weight=nontriv)
