"""C11 — a query means what its text says: literals, variables and calls compose."""
import random

from ..backends import Store
from ..gen import canon, mk_dt
from .. import qlang

ID = "C11"
LEVEL = "exploration"
ANCHOR_FILES = ["aw_query/query2.py", "aw_query/functions.py"]
REQUIRED_COUNTERS = ["programs_evaluated", "registry_calls_recorded", "printings_compared", "calls_whose_arguments_were_compared"]
RULE = ("programs generated as typed ASTs (every built-in of the registry, the identity built-ins vp0..vp3 registered "
        "through the registry's decorator so that any literal can sit at any argument position, nested "
        "calls/lists/dicts as first/middle/last argument, 0-3 arguments, 1-9 statements with rebinding through "
        "in-place mutators and aliasing, programs that evaluate the same expression text twice around a rebinding of a "
        "variable it mentions at nesting depth 1-5, strings containing brackets, commas, both quote kinds, backslashes, '=', "
        "':'), printed twice with different spacing/line breaks around , : = ; and run through aw_query.query on a "
        "memory datastore with three populated buckets; value and registry call trace (name + canonical arguments, "
        "recorded at the registry) are compared with a reference evaluator working on the AST; non-trivial = a call "
        "with >= 2 arguments one of which is a list/dict/call; signature = (set of (arity, position, argument node "
        "kind), statement-count class, string features)")
ASSUMPTIONS = ["strings contain no ';' and do not end in a backslash (the language cannot express those)",
               "dict literals have distinct keys",
               "when the reference evaluation raises inside a built-in the implementation must raise too (class not compared)",
               "'a variable evaluates to its most recent assignment' is also held against the built-ins: a call must leave the values it "
               "is given as they were (compared at the registry before and after every call) and must not assign to any variable of the program (the namespace it is handed is compared by identity before and after), except categorize / tag / split_url_events, "
               "which annotate the caller's events in place, and period_union, which clears the data of the input events it returns "
               "unmerged - behaviour of the unchanged tree that C12's quantifier acknowledges ('programs that annotate, clear or re-time events in place')"]

_S = {}


def plan(tier):
    return dict(workers=16, cases=64_000 if tier == "quick" else 1_600_000, time_s=45 if tier == "quick" else 900)


def setup(ctx):
    _S["reg"] = qlang.Registry()
    _ensure(ctx, f"c11-data-{ctx.seed}-{ctx.widx}")


def _ensure(ctx, data_key):
    if _S.get("key") == data_key:
        return
    st = Store("memory", ctx.tmp)
    lo, hi = qlang.populate(st.ds, random.Random(data_key), 1_600_000_000_000_000)
    _S.update(st=st, lo=lo, hi=hi, key=data_key)


def teardown(ctx):
    ctx.count("calls_whose_arguments_were_compared", _S["reg"].calls_compared)
    _S["reg"].restore()


def gen_case(rng, ctx):
    g = qlang.ProgGen(rng, max_depth=rng.choice([2, 3, 4, 5]))
    prog = g.program()
    seeds = [rng.randrange(2**32), rng.randrange(2**32)]
    return dict(prog=prog, spacing_seeds=seeds, data_key=_S["key"])


def outcome(fn):
    """('value', canonical value) or ('raise', class name, message)"""
    try:
        return ("value", qlang.cv(fn()))
    except Exception as ex:  # noqa: BLE001
        return ("raise", type(ex).__name__, str(ex)[:200])


def run_case(case, ctx):
    import aw_query
    _ensure(ctx, case["data_key"])
    reg, ds = _S["reg"], _S["st"].ds
    prog = case["prog"]
    start, end = mk_dt(_S["lo"]), mk_dt(_S["hi"], 60)
    # reference
    reg.reset()
    try:
        val, rtrace = qlang.ref_eval(prog, ds, reg.orig, "q", start.isoformat(), end.isoformat())
        ref = ("value", qlang.cv(val))
    except qlang.RefError as ex:
        ref, rtrace = ("raise", ex.category, str(ex)[:200]), None
    viols = []
    texts = []
    outs = []
    for i, sd in enumerate(case["spacing_seeds"]):
        # a third of the first printings use one uniform style, so that a repeated sub-expression is also repeated TEXT
        sp = qlang.Spacing(random.Random(sd), style=("tight" if sd % 2 else "spaced") if (i == 0 and sd % 3 == 0) else None)
        text = qlang.render_program(prog, sp, random.Random(sd))
        texts.append(text)
        reg.reset()
        out = outcome(lambda: aw_query.query("q", text, start, end, ds))
        trace = list(reg.trace)
        outs.append((out, trace))
        for (fname, before, after) in reg.arg_effects[:1]:
            # a variable bound to that value no longer evaluates to what was assigned to it
            viols.append(("built-in-changed-the-values-it-was-given", f"{fname}: before={canon(before)[:250]} after={canon(after)[:250]} :: text={text!r:.400}"))
        for (fname, changed, how) in reg.namespace_effects[:1]:
            # only statements assign: a variable (the query's own NAME / STARTTIME / ENDTIME included) evaluates to its most
            # recent assignment, and a name the program never assigned is unbound
            viols.append(("built-in-assigned-to-a-variable", f"{fname} re-bound / bound {changed}: {how} :: text={text!r:.400}"))
        ctx.count("programs_evaluated")
        ctx.count("registry_calls_recorded", len(trace))
        if ref[0] == "value":
            if out[0] != "value":
                kind = "valid-program-rejected"
                viols.append((kind, f"{out[1]}: {out[2]} :: text={text!r:.500}"))
            else:
                if trace != rtrace:
                    k = next((j for j, (a, b_) in enumerate(zip(trace, rtrace)) if a != b_), min(len(trace), len(rtrace)))
                    got = trace[k] if k < len(trace) else None
                    want = rtrace[k] if k < len(rtrace) else None
                    kind = "call-applied-to-wrong-arguments"
                    if got and want and got[0] == want[0] and len(got[1][1]) < len(want[1][1]):
                        kind = "call-lost-an-argument"
                    viols.append((kind, f"call #{k}: want={canon(want)[:300]} got={canon(got)[:300]} :: text={text!r:.500}"))
                elif out[1] != ref[1]:
                    viols.append(("result-differs-from-denotation", f"want={canon(ref[1])[:300]} got={canon(out[1])[:300]} :: text={text!r:.400}"))
        else:
            if out[0] == "value":
                viols.append(("program-that-must-raise-returned-a-value", f"reference: {ref[1]} {ref[2]} :: text={text!r:.400}"))
        if viols:
            break
    if not viols and len(outs) == 2:
        ctx.count("printings_compared")
        (o1, t1), (o2, t2) = outs
        same = (o1[0] == o2[0]) and (o1[0] == "raise" or o1[1] == o2[1]) and t1 == t2
        if not same:
            viols.append(("spacing-changes-the-result", f"A={texts[0]!r:.300} -> {canon(o1)[:150]} | B={texts[1]!r:.300} -> {canon(o2)[:150]}"))
    kinds, feats = set(), set()
    for _, node in prog:
        qlang.node_kinds(node, kinds)
        qlang.string_features(node, feats)
    nontriv = any(ar >= 2 and k in ("list", "dict", "call") for ar, _, k in kinds)
    sig = (sorted(kinds), min(len(prog), 4), sorted(feats), ref[0])
    return viols, dict(sig=sig, nontrivial=nontriv, sample=dict(kind="program", text=texts[0], text_b=texts[-1]))
