"""Helpers shared by the transform properties (C08–C10, C15, C16, C19)."""
import sys

from ..gen import canon, dt_us, exact, td_us


def iv(e):
    """closed interval of an event in integer µs"""
    s = dt_us(e.timestamp)
    return (s, s + td_us(e.duration))


def snap(events):
    """Exact, order-preserving snapshot of an event list."""
    return [(e.id, dt_us(e.timestamp), td_us(e.duration), exact(e.data)) for e in events]


def is_event_list(x):
    from aw_core.models import Event
    return isinstance(x, list) and all(isinstance(e, Event) for e in x)


def unmodified(label, old, after):
    """old: deep copy taken before the call; after: the caller's list after the call."""
    if snap(old) != snap(after):
        return [(f"{label}-input-modified", f"before={snap(old)[:6]} after={snap(after)[:6]}")]
    return []


def tmod(name):
    """The transform *module* (package attributes of the same name shadow some submodules)."""
    import aw_transform  # noqa: F401
    return sys.modules[f"aw_transform.{name}"]


def exc_viol(label, exc):
    return [(f"{label}-exception", f"{type(exc).__name__}: {exc}")]


# ---------------------------------------------------------------------------
# foreign workloads: the same monitors, driven by code that is not the property's own driver

_Q = {}


def _query_env(ctx, data_key):
    """memory datastore with three populated buckets + the query registry (with the identity built-ins)"""
    import random
    from .. import qlang
    from ..backends import Store
    if _Q.get("key") != data_key:
        if "reg" not in _Q:
            _Q["reg"] = qlang.Registry()
        st = Store("memory", ctx.tmp)
        lo, hi = qlang.populate(st.ds, random.Random(data_key), 1_600_000_000_000_000)
        _Q.update(st=st, lo=lo, hi=hi, key=data_key)
    return _Q


_BUILTIN_OF = {"simplify_string": "simplify_window_titles"}


def judge_builtins(mons):
    """The same oracles once more, one level up: around the BUILT-IN of the query language that stands for the monitored
    transform (registry entry: recorder -> type check -> wrapper -> transform). What a query gets for `f(a, b)` must be
    what the property says about f(a, b), whatever the wrapper in between does. Violations are filed with the monitor."""
    import copy
    import aw_query.functions as F
    done = _Q.setdefault("builtin_judges", {})
    for n, m in mons.items():
        q = _BUILTIN_OF.get(n, n)
        if q not in F.functions or (q, id(m)) in done:
            continue
        inner = F.functions[q]

        def judged(datastore, namespace, *args, _inner=inner, _m=m, _q=q, **kwargs):
            try:
                old = copy.deepcopy(args)
                dom = bool(_m.pre(*old)) if _m.pre else True
            except Exception:  # noqa: BLE001
                old, dom = None, False
            exc = result = None
            try:
                result = _inner(datastore, namespace, *args, **kwargs)
            except Exception as e:  # noqa: BLE001 - re-raised below
                exc = e
            if dom and old is not None and not kwargs:
                _Q["builtin_judged"] = _Q.get("builtin_judged", 0) + 1
                try:
                    for kind, detail in (_m.post(old, {}, result, exc, args, {}) or []):
                        if len(_m.violations) < 20:
                            _m.violations.append((f"built-in-{_q}:{kind}", detail, (old, {})))
                except Exception as e:  # noqa: BLE001
                    _m.violations.append(("oracle-error", f"{type(e).__name__}: {e}", (old, {})))
            if exc is not None:
                raise exc
            return result

        judged.__wrapped__ = inner
        judged.__name__ = getattr(inner, "__name__", q)
        F.functions[q] = judged
        done[(q, id(m))] = inner


def run_query_case(case, ctx, mons):
    """Runs one query text with the monitors installed; returns the violations they observed."""
    import aw_query
    from ..gen import mk_dt
    env = _query_env(ctx, case["data_key"])
    judge_builtins(mons)
    for m in mons.values():
        m.violations = []
    before = {n: (m.evaluations, m.out_of_domain) for n, m in mons.items()}
    try:
        aw_query.query("q", case["text"], mk_dt(env["lo"]), mk_dt(env["hi"]), env["st"].ds)
        outcome = "value"
    except Exception as ex:  # noqa: BLE001 - the query may fail; the monitors have seen the calls made before
        outcome = type(ex).__name__
    viols = []
    reached = []
    for n, m in mons.items():
        ev, ood = m.evaluations - before[n][0], m.out_of_domain - before[n][1]
        if ev:
            reached.append(n)
            ctx.count(f"query_workload.judged.{n}", ev)
        if ood:
            ctx.count(f"query_workload.out_of_domain.{n}", ood)
        for kind, detail, _ in m.violations:
            if kind == "oracle-error":
                ctx.count("query_workload.oracle_errors")     # the oracle could not judge this input: not a verdict
                continue
            viols.append((f"in-query:{kind}", f"{detail} :: query={case['text']!r:.300}"))
        m.violations = []
    if _Q.get("builtin_judged"):
        ctx.count("query_workload.judged_at_the_built-in", _Q.pop("builtin_judged"))
    return viols, dict(sig=("query", tuple(sorted(reached)), outcome), nontrivial=bool(reached))


def query_workload(ctx, mons, n, prop):
    """n generated query programs run through aw_query.query while `mons` are installed."""
    from .. import qlang
    data_key = f"{prop}-query-data-{ctx.seed}-{ctx.widx}"
    for _ in range(n):
        if ctx.time_left() < 2:
            break
        g = qlang.ProgGen(ctx.rng, max_depth=ctx.rng.choice([2, 3, 4]))
        text = qlang.render_program(g.program(), qlang.Spacing(ctx.rng))
        case = dict(kind="query", text=text, data_key=data_key)
        viols, info = run_query_case(case, ctx, mons)
        ctx.record(case, viols, sig=info["sig"], nontrivial=info["nontrivial"])
        ctx.count("query_workload.programs")


def pytest_workload(ctx, prop):
    """The repository's own test-suite with every function monitor on; this property's monitors are judged."""
    import json
    import os
    import subprocess
    import sys
    repo = os.environ["AWVERIF_REPO"]
    report = os.path.join(ctx.tmp, f"pytest-monitors-{os.getpid()}.json")
    env = dict(os.environ, AWVERIF_PYTEST_REPORT=report)
    r = subprocess.run([sys.executable, "-m", "pytest", "-q", "-x", "-p", "no:cacheprovider", "-p", "awverif.pytest_monitors",
                        "--timeout=900"], cwd=repo, env=env, capture_output=True, text=True, timeout=1200)
    if not os.path.exists(report):
        ctx.count("pytest_workload.no_report")
        return
    doc = json.load(open(report))
    for m in doc["monitors"]:
        if m["property"] != prop:
            continue
        ctx.count(f"pytest_workload.judged.{m['function']}", m["evaluations"])
        ctx.count(f"pytest_workload.out_of_domain.{m['function']}", m["out_of_domain"])
        viols = [(f"in-repo-tests:{v['kind']}", v["detail"]) for v in m["violations"] if v["kind"] != "oracle-error"]
        if m["evaluations"]:
            ctx.record(dict(kind="repo-test-suite", function=m["function"]), viols, sig=("repo-tests", m["function"]),
                       nontrivial=True, weight=m["evaluations"])
