"""Helpers shared by the transform properties (C08–C10, C15, C16, C19)."""
import sys

from ..gen import canon, dt_us, td_us


def iv(e):
    """closed interval of an event in integer µs"""
    s = dt_us(e.timestamp)
    return (s, s + td_us(e.duration))


def snap(events):
    """Exact, order-preserving snapshot of an event list."""
    return [(e.id, dt_us(e.timestamp), td_us(e.duration), canon(e.data)) for e in events]


def is_event_list(x):
    from aw_core.models import Event
    return isinstance(x, list) and all(isinstance(e, Event) for e in x)


def unmodified(label, old, after):
    """old: deep copy taken before the call; after: the caller's list after the call."""
    if snap(old) != snap(after):
        return [(f"{label}-input-modified", f"before={snap(old)[:6]} after={snap(after)[:6]}")]
    return []


def tmod(name):
    """The transform *module* (package attributes of the same name shadow some submodules)."""
    import aw_transform  # noqa: F401
    return sys.modules[f"aw_transform.{name}"]


def exc_viol(label, exc):
    return [(f"{label}-exception", f"{type(exc).__name__}: {exc}")]
