"""C02 — every backend behaves like one simple per-bucket event list under any history."""
from collections import Counter

from ..backends import BACKENDS, Store
from ..gen import bucket_ids, canon, floor_ms, mk_event, rand_grid
from ._st import dump_store, obs, raw_uids, raw_view

ID = "C02"
LEVEL = "exploration"
ANCHOR_FILES = ["aw_datastore/storages/memory.py", "aw_datastore/storages/sqlite.py", "aw_datastore/storages/peewee.py"]
REQUIRED_COUNTERS = ["ops.memory", "ops.sqlite", "ops.peewee", "state_comparisons", "replace_last_checked"]
RULE = ("operation histories (5-40 ops quick, up to 200 thorough) over 1-3 buckets of one store, per backend: insert, "
        "bulk insert, bulk upsert (live ids of that bucket mixed with id-less events; sometimes the same id twice in one call), replace(id), replace_last "
        "(non-empty bucket, preceded by the limit-1 read that identifies its target; the payload is a fresh event, an event that carries the id of some live event, or the object handed to the previous replace_last edited and handed in again), delete(live id), delete(id "
        "that never existed in that bucket - nowhere, or live in another bucket of the store), occasionally delete + re-create of the bucket; timestamps from a pool of 6 instants and end instants from a pool (ties, nesting, "
        "zero-length, decreasing order, delete-then-upsert, delete-max-id-then-insert, identical twins with different ids, "
        "durations beyond a day); a third of the histories contain a burst of 3-7 operations that all concern the newest event of one "
        "bucket (replace_last, delete the newest / the highest id, inserts placed before / after / at the newest instant, the newest moved back); after EVERY operation the "
        "whole observable state of every bucket (listing multiset + order, limit-1, lookup of every id ever seen, "
        "count) is compared with a dict model (in a third of the cases 'quiet': per-op comparison through the writer "
        "connection's own uncommitted view by uid, full API comparison once at the end - an API read commits on the lazy "
        "store); non-trivial = contains a replace_last and a timestamp/end tie or "
        "nesting; signature = (backend, set of op kinds, tie-ts, tie-end, nested, zero-len, multi-bucket, length class)")
ASSUMPTIONS = ["where timestamps tie the model takes the observed limit-1 answer as 'the newest' and holds replace_last to it",
               "return values of delete/replace are not part of the statement and are not judged"]


def plan(tier):
    return dict(workers=16, cases=4_800 if tier == "quick" else 150_000, time_s=45 if tier == "quick" else 900)


# ------------------------------------------------------------------ generator

def _ev(rng, pool_s, pool_e, uid):
    s = rng.choice(pool_s)
    r = rng.random()
    if r < 0.05:
        # longer than a day (anything that splits a duration into days / seconds / microseconds must put it back together)
        return dict(ts=s, dur=rng.choice([86400, 86401, 90000, 2 * 86400 + 10, 30 * 86400]) * 10**6 + rng.choice([0, 1, 999999]),
                    data={"uid": uid, "x": "long"})
    if r < 0.25:
        e = s
    else:
        later = [x for x in pool_e if x >= s]
        e = rng.choice(later) if later and rng.random() < 0.8 else s + rng.choice([1000, 1, 999, 10**6, 3600 * 10**6])
    return dict(ts=s, dur=e - s, data={"uid": uid, "x": rng.choice(["a", "b", ["n", 1], {"k": None}])})


def gen_case(rng, ctx):
    backend = BACKENDS[rng.randrange(3)]
    nb = rng.choice([1, 1, 2, 3])
    base, unit = rand_grid(rng)
    pts = sorted(rng.sample(range(0, 12), 6))
    pool_s = [base + p * unit for p in pts]
    pool_e = [base + p * unit for p in sorted(rng.sample(range(0, 16), 5))] + pool_s[-2:]
    nmax = 40 if ctx.tier == "quick" else rng.choice([40, 40, 80, 200])
    n = rng.randrange(5, nmax + 1)
    uid = [0]

    def ev():
        uid[0] += 1
        return _ev(rng, pool_s, pool_e, uid[0])

    ops = []
    for _ in range(n):
        b = rng.randrange(nb)
        r = rng.random()
        if r < 0.06 and ops and any(o["op"] == "insert" for o in ops):
            # an identical twin of an event inserted earlier: same instant, duration AND data (uid included), new id
            twin = rng.choice([o for o in ops if o["op"] == "insert"])
            ops.append(dict(op="insert", b=twin["b"], ev=dict(twin["ev"]), twin=True))
        elif r < 0.28:
            ops.append(dict(op="insert", b=b, ev=ev()))
        elif r < 0.36:
            ops.append(dict(op="bulk", b=b, evs=[ev() for _ in range(rng.choice([0, 1, 2, 3, 5]))]))
        elif r < 0.46:
            items = [dict(ev=ev(), pick=(rng.randrange(100) if rng.random() < 0.6 else None)) for _ in range(rng.choice([1, 2, 3, 4]))]
            if rng.random() < 0.25:
                again = rng.choice(items)       # the same target once more in the same call, with other contents
                if again["pick"] is not None:
                    items.insert(rng.randrange(len(items) + 1), dict(ev=ev(), pick=again["pick"]))
            ops.append(dict(op="upsert", b=b, items=items))
        elif r < 0.58:
            ops.append(dict(op="replace", b=b, pick=rng.randrange(100), ev=ev()))
        elif r < 0.8:
            ops.append(dict(op="replace_last", b=b, ev=ev(), payload=rng.choice([None, None, "stale-id", "reused"]), pick=rng.randrange(100)))
        elif r < 0.93:
            ops.append(dict(op="delete", b=b, pick=rng.choice([rng.randrange(100), -1, -1])))   # -1: the max id
        elif r < 0.975:
            # an id that never existed in this bucket: either nowhere, or one that is live in ANOTHER bucket of the store
            ops.append(dict(op="delete_missing", b=b, foreign=rng.random() < 0.5, pick=rng.randrange(100)))
        else:
            ops.append(dict(op="recreate_bucket", b=b))     # whatever the store remembers about the old bucket must go
    if rng.random() < 0.35:
        # a burst of operations that all concern the NEWEST event of one bucket (what a heartbeat client does, plus
        # deletions and back-filled inserts in between): replace_last, delete the newest / the highest id, insert
        # something older / newer / at the same instant, move the newest back in time
        b = rng.randrange(nb)
        burst = []
        for _ in range(rng.randrange(3, 8)):
            r = rng.random()
            if r < 0.3:
                burst.append(dict(op="replace_last", b=b, ev=ev(), rel=rng.choice([None, None, "newer", "older"]),
                                  payload=rng.choice([None, "stale-id", "reused"]), pick=rng.randrange(100)))
            elif r < 0.5:
                burst.append(dict(op="delete", b=b, pick=-2))
            elif r < 0.6:
                burst.append(dict(op="delete", b=b, pick=-1))
            elif r < 0.9:
                burst.append(dict(op="insert", b=b, ev=ev(), rel=rng.choice(["older", "older", "newer", "same"])))
            else:
                burst.append(dict(op="replace", b=b, pick=-2, ev=ev(), rel="older"))
        at = rng.randrange(0, len(ops) + 1)
        ops[at:at] = burst
    second = backend == "sqlite" and rng.random() < 0.25
    if second:
        # a second Datastore object on the SAME database file (an importer or a command-line tool next to the server):
        # some operations of the history go through it, among them deleting and re-creating a bucket
        for op in ops:
            if rng.random() < 0.3:
                op["via"] = 1
        for _ in range(rng.randrange(0, 3)):
            ops.insert(rng.randrange(0, len(ops) + 1), dict(op="recreate_bucket", b=rng.randrange(nb), via=1))
    return dict(backend=backend, nb=nb, ops=ops, quiet=rng.random() < 0.35 and not second, names=bucket_ids(rng, nb, 0.7),
                twin=rng.random() < 0.2, second=second)


def _pick(pick, m):
    """-1: the highest id; -2: the newest event (latest start, highest id among equals); otherwise by position"""
    live = sorted(m)
    if pick == -2:
        return max(live, key=lambda i: (m[i][0], i))
    return live[-1] if pick < 0 else live[pick % len(live)]


def _rel(op, m, unit=1000):
    """the event of an operation, placed relative to the newest event of the bucket when the operation says so"""
    spec = op["ev"]
    rel = op.get("rel")
    if rel and m:
        newest = max(t[0] for t in m.values())
        uidn = spec["data"].get("uid", 1)
        ts = {"older": newest - (1 + uidn % 5) * 60_000_000, "newer": newest + (1 + uidn % 5) * 60_000_000, "same": newest}[rel]
        if ts >= 0:
            spec = dict(spec, ts=ts)
    return spec


# ------------------------------------------------------------------ model + comparison

def _want(spec):
    return (floor_ms(spec["ts"]), spec["dur"], canon(spec["data"]))


def compare(ds, model, ever, viols, where, ctx):
    """Whole observable state of every bucket vs the model."""
    for bid, m in model.items():
        b = ds[bid]
        handed = b.get(-1)
        listing = [obs(e) for e in handed]
        for e in handed[:4]:
            # the reader annotates what it was handed (its own objects now): later reads must not show it
            e.data["$seen"] = True
            for v in e.data.values():
                if isinstance(v, (list, dict)):
                    v.clear()
        want = Counter((i,) + t for i, t in m.items())
        got = Counter(listing)
        if got != want:
            missing, extra = list((want - got).elements())[:3], list((got - want).elements())[:3]
            kind = "contents-differ"
            if missing and not extra:
                kind = "event-lost"
            elif extra and not missing:
                kind = "unexpected-event"
            elif len(missing) == len(extra) and {x[0] for x in missing} == {x[0] for x in extra}:
                kind = "event-has-wrong-content"
            viols.append((kind, f"{where} bucket={bid} missing={missing} extra={extra}"))
        ts = [t[1] for t in listing]
        if any(a < b_ for a, b_ in zip(ts, ts[1:])):
            viols.append(("listing-not-newest-first", f"{where} bucket={bid} timestamps={ts[:10]}"))
        top = b.get(1)
        if m:
            mx = max(t[0] for t in m.values())
            if len(top) != 1:
                viols.append(("limit-1-wrong-length", f"{where} bucket={bid} got {len(top)}"))
            elif obs(top[0])[1] != mx or m.get(obs(top[0])[0]) != obs(top[0])[1:]:
                viols.append(("limit-1-not-the-newest", f"{where} bucket={bid} got={obs(top[0])!r:.200} newest_ts={mx}"))
        elif top:
            viols.append(("limit-1-on-empty-bucket", f"{where} bucket={bid} got={obs(top[0])!r:.200}"))
        for i in ever[bid]:
            e = b.get_by_id(i)
            w = m.get(i)
            if (e is None) != (w is None) or (e is not None and obs(e) != (i,) + w):
                viols.append(("lookup-by-id-differs", f"{where} bucket={bid} id={i} model={w!r:.160} got={None if e is None else obs(e)!r:.160}"))
        n = b.get_eventcount()
        if n != len(m):
            viols.append(("count-differs", f"{where} bucket={bid} model={len(m)} got={n}"))
        ctx.count("state_comparisons")


class _Row:
    def __init__(self, i):
        self.id = i


def learn_ids(b, m, ever, new_specs, viols, where, st=None):
    """ids of bulk-inserted events, recovered through their uid (quiet mode: from the writer's own view)"""
    if not new_specs:
        return
    by_uid = {}
    if st is not None:
        for (bid, uid), i in raw_view(st)[1].items():
            if bid == b.bucket_id:
                by_uid.setdefault(uid, []).append(_Row(i))
    else:
        for e in b.get(-1):
            by_uid.setdefault(e.data.get("uid"), []).append(e)
    for s in new_specs:
        g = by_uid.get(s["data"]["uid"], [])
        if len(g) != 1:
            viols.append(("bulk-inserted-event-missing-or-duplicated", f"{where} uid={s['data']['uid']} found={len(g)}"))
            continue
        i = g[0].id
        if i in m:
            viols.append(("fresh-insert-got-live-id", f"{where} id={i}"))
            continue
        m[i] = _want(s)
        ever.add(i)


def run_case(case, ctx):
    backend = case["backend"]
    viols = []
    flags = set()
    kinds = set()
    twin = twin0 = None
    if case.get("twin") and backend != "peewee":      # (peewee's database object is a module global: one store per process)
        # another Datastore of the same kind, created FIRST, alive for the whole history, holding buckets of the same ids
        twin = Store(backend, ctx.tmp)
        for i, bid in enumerate(case.get("names") or [f"bucket-{i}" for i in range(case["nb"])]):
            tb = twin.ds.create_bucket(bid, type="twin", client="twin", hostname="twin")
            tb.insert(mk_event(dict(ts=10**15 + i * 1000, dur=1000, data={"twin": i})))
        twin0 = dump_store(twin.ds)
        ctx.count("histories_next_to_a_twin_datastore")
    with Store(backend, ctx.tmp) as st:
        ds = st.ds
        quiet = bool(case.get("quiet")) and backend != "memory"
        qst = st if quiet else None
        bids = list(case.get("names") or [f"bucket-{i}" for i in range(case["nb"])])
        for bid in bids:
            ds.create_bucket(bid, type="t", client="c", hostname="h")
        model = {bid: {} for bid in bids}
        ever = {bid: set() for bid in bids}
        missing_id = 10**9
        payloads = {}
        ds_main, second, via_prev = ds, None, 0
        if case.get("second") and backend == "sqlite":
            ds.buckets()                                   # (a read: nothing of the first handle is left pending)
            second = Store(backend, ctx.tmp, path=st.path)
            ctx.count("histories_through_two_handles_on_one_file")
        for k, op in enumerate(case["ops"]):
            bid = bids[op["b"]]
            if second is not None:
                via = op.get("via", 0)
                if via != via_prev:
                    # the handle used so far reads (which flushes what it has pending) before the other one writes
                    (second.ds if via_prev else ds_main)[bid].get(1)
                    via_prev = via
                    ctx.count("handle_switches")
                ds = second.ds if via else ds_main
            b, m = ds[bid], model[bid]
            where = f"after op#{k} {op['op']}"
            live = sorted(m)
            kind = op["op"]
            if op.get("rel"):
                op = dict(op, ev=_rel(op, m))
            if kind == "insert":
                r = b.insert(mk_event(op["ev"]))
                if r is None or r.id is None:
                    viols.append(("insert-returned-no-id", where))
                    break
                if r.id in m:
                    viols.append(("fresh-insert-got-live-id", f"{where} id={r.id}"))
                m[r.id] = _want(op["ev"])
                ever[bid].add(r.id)
            elif kind == "bulk":
                b.insert([mk_event(s) for s in op["evs"]])
                learn_ids(b, m, ever[bid], op["evs"], viols, where, qst)
            elif kind == "upsert":
                evs, fresh, used = [], [], set()
                for it in op["items"]:
                    e = mk_event(it["ev"])
                    if it["pick"] is not None and live:
                        i = live[it["pick"] % len(live)]
                        if i in used:
                            # the same live id named twice in one call: the reference list applies the entries in order
                            flags.add("upsert-same-id-twice")
                            ctx.count("upserts_naming_one_id_twice")
                        used.add(i)
                        e.id = i
                        m[i] = _want(it["ev"])
                    else:
                        fresh.append(it["ev"])
                    evs.append(e)
                b.insert(evs)
                learn_ids(b, m, ever[bid], fresh, viols, where, qst)
            elif kind == "replace":
                if not live:
                    continue
                i = _pick(op["pick"], m)
                b.replace(i, mk_event(op["ev"]))
                m[i] = _want(op["ev"])
            elif kind == "replace_last":
                if not live:
                    continue
                top = b.get(1)
                if len(top) != 1 or top[0].id not in m:
                    viols.append(("limit-1-read-before-replace-last-unusable", f"{where} got={[obs(t) for t in top]!r:.200}"))
                    break
                m[top[0].id] = _want(op["ev"])
                payload = mk_event(op["ev"])
                how = op.get("payload")
                if how == "stale-id":
                    # the payload is an event fetched earlier (it carries the id of some live event, not necessarily the newest)
                    payload.id = live[op.get("pick", 0) % len(live)]
                    flags.add("rl-payload-with-id")
                elif how == "reused" and payloads.get(bid) is not None:
                    # the very object handed to the previous replace_last of this bucket, edited and handed in again
                    old_payload = payloads[bid]
                    old_payload.timestamp, old_payload.duration, old_payload.data = payload.timestamp, payload.duration, payload.data
                    payload = old_payload
                    flags.add("rl-payload-reused")
                payloads[bid] = payload
                ctx.count(f"replace_last_payload.{how or 'fresh'}")
                b.replace_last(payload)
                ctx.count("replace_last_checked")
                tss = [t[0] for t in m.values()]
                if tss.count(max(tss)) > 1:
                    flags.add("rl-with-tied-top")
            elif kind == "delete":
                if not live:
                    continue
                i = _pick(op["pick"], m)
                b.delete(i)
                del m[i]
            elif kind == "recreate_bucket":
                ds.delete_bucket(bid)
                ds.create_bucket(bid, type="t", client="c", hostname="h")
                b = ds[bid]
                m.clear()
            elif kind == "delete_missing":
                foreign = sorted({i for ob, om in model.items() if ob != bid for i in om} - ever[bid]) if op.get("foreign") else []
                if foreign:
                    target = foreign[op.get("pick", 0) % len(foreign)]
                    ctx.count("deletes_of_an_id_live_in_another_bucket")
                    flags.add("delete-foreign-id")
                else:
                    missing_id += 1
                    target = missing_id
                b.delete(target)
                ever[bid].add(target)
            kinds.add(kind)
            ctx.count(f"ops.{backend}")
            if quiet:
                # no API read (it would commit what the operation left pending): the writer's own view, by uid
                got = raw_uids(raw_view(st)[0])
                want = {b_: {__import__("json").loads(t[2]).get("uid") for t in mm.values()} for b_, mm in model.items()}
                ctx.count("quiet_comparisons")
                if got != want:
                    bad = next(b_ for b_ in want if got.get(b_) != want[b_])
                    viols.append(("pending-state-differs-in-the-writers-view",
                                  f"{where} bucket={bad} model_uids={sorted(want[bad])} got_uids={sorted(got.get(bad, []))}"))
            else:
                compare(ds, model, ever, viols, where, ctx)
            if viols:
                break
            vals = list(m.values())
            tss = [t[0] for t in vals]
            ends = [t[0] + t[1] for t in vals]
            if len(set(tss)) < len(tss):
                flags.add("tie-ts")
            if len(set(ends)) < len(ends):
                flags.add("tie-end")
            if any(t[1] == 0 for t in vals):
                flags.add("zero-len")
            if any(a[0] < c[0] and c[0] + c[1] < a[0] + a[1] for a in vals for c in vals):
                flags.add("nested")
        if second is not None:
            try:
                if not viols:
                    ds[bids[0]].get(1)
                    for h, hds in (("first", ds_main), ("second", second.ds)):
                        compare(hds, model, ever, viols, f"at the end, through the {h} handle", ctx)
            finally:
                second.close(remove=False)
            ds = ds_main
        if quiet and not viols:
            compare(ds, model, ever, viols, "at the end of a quiet history", ctx)
        if twin is not None:
            try:
                if not viols and dump_store(twin.ds) != twin0:
                    viols.append(("another-datastore-of-the-process-changed", f"twin before={twin0!r:.300} after={dump_store(twin.ds)!r:.300}"))
            finally:
                twin.close()
    viols = [(f"{backend}:{k}", d) for k, d in viols]
    if case["nb"] > 1:
        flags.add("multi-bucket")
    n = len(case["ops"])
    sig = (backend, tuple(sorted(kinds)), tuple(sorted(flags)), 0 if n < 15 else (1 if n < 40 else 2))
    nontriv = "replace_last" in kinds and bool(flags & {"tie-ts", "tie-end", "nested"})
    return viols, dict(sig=sig, nontrivial=nontriv)
