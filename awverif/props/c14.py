"""C14 — migrating a legacy database to the SQLite store loses nothing."""
import copy
import hashlib
import os
import shutil
from collections import Counter

import iso8601

from ..gen import BUCKET_ID_FAMILIES, equal_looking_pack, batch_edge, canon, dt_us, mk_dt, mk_event, rand_data, rand_event_spec, rand_instant, rand_offset, td_us

ID = "C14"
LEVEL = "exploration"
ANCHOR_FILES = ["aw_datastore/migration.py"]
REQUIRED_COUNTERS = ["migrations_triggered", "events_compared", "buckets_compared"]
RULE = ("legacy databases built by the real PeeweeStorage at its default path inside a private XDG_DATA_HOME: 0-6 "
        "buckets (unicode ids, look-alike ids that differ only in letter case / wildcards / blanks / composition, data dicts, with/without name, explicit creation instants), 0-300 events each "
        "(written bucket by bucket, or - in three cases out of five - in turns, so that the rows of a bucket are interleaved with those of the others in the legacy table; generated instants/durations/JSON data, some events recorded two or three times identically; ids overlap across buckets; 100-row chunk boundaries crossed) and a few "
        "per cent with 999-5000 time-clustered, overlapping events (page / batch boundaries of any size up to 5000), in "
        "the normal and the testing profile, sometimes with the OTHER profile's legacy file present too (the same process then creates that profile's store as well and it is compared with its own legacy content); then "
        "SqliteStorage is created at its default location, which triggers the migration (in half of the cases its connection is then closed without any other call and the store is opened afresh, as after a start-and-stop of the server); bucket sets, metadata and "
        "per-bucket event multisets are compared and the legacy file is hashed before and after; evaluations = "
        "migrations; non-trivial = at least one bucket with events; signature = (profile, bucket-count class, "
        "event-count class, has data, has name, other profile present)")
ASSUMPTIONS = ["the legacy content is what PeeweeStorage itself reads back before the migration",
               "one case at a time per worker process (peewee's database object is a module global)"]

_n = [0]
_count = [0]
IDS = ["aw-watcher-window_host", "aw-watcher-afk_host", "ünï-日本", "with space", 'q"uote', "b%1", "B"]


def plan(tier):
    return dict(workers=16, cases=2_000 if tier == "quick" else 60_000, time_s=45 if tier == "quick" else 900)


def setup(ctx):
    import aw_datastore.migration as mig
    orig = mig.peewee_v2_to_sqlite_v1

    def counted(*args, **kwargs):      # whatever signature the migration has, it is only counted
        _count[0] += 1
        return orig(*args, **kwargs)

    mig.peewee_v2_to_sqlite_v1 = counted


def gen_case(rng, ctx):
    nb = rng.choice([0, 1, 1, 2, 3, 6])
    buckets = []
    uid = 0
    ids = rng.sample(IDS, nb)
    if nb >= 2 and rng.random() < 0.3:
        # ids that are easily taken for one another (letter case, LIKE wildcards, blanks, Unicode composition, …)
        fam = rng.choice(BUCKET_ID_FAMILIES[1:])
        ids = rng.sample(fam, min(nb, len(fam))) + ids[len(fam):]
    for bid in ids:
        n = rng.choice([0, 1, 2, 5, 40, 99, 100, 101, 250, 300]) if rng.random() < 0.5 else rng.randrange(0, 12)
        big = rng.random() < (0.04 if ctx.tier == "quick" else 0.08)
        if big:
            # years of events in one bucket (any paging / batching in the migration has to cross its boundaries),
            # clustered in time so that long events overlap many others and timestamps tie
            n = rng.choice([999, 1000, 1001, 1500, 2500, 5000])
            base = rand_instant(rng, 10**15, 3 * 10**15) // 1000 * 1000
        edge = not big and rng.random() < 0.12
        if edge:
            # a count at which a batching migration would cut (exact multiples of likely batch sizes, and one off)
            n = batch_edge(rng, 1100 if ctx.tier == "quick" else 11000)
            base = rand_instant(rng, 10**15, 3 * 10**15) // 1000 * 1000
            big = True
        evs = []
        for _ in range(n):
            uid += 1
            s = rand_event_spec(rng, depth=2)
            if big:
                s["ts"] = base + rng.randrange(0, 2000) * 60 * 10**6
                s["dur"] = rng.choice([0, 1000, 60 * 10**6, 3600 * 10**6, 20 * 3600 * 10**6, rng.randrange(0, 10**9)])
                s["data"] = {"app": rng.choice(["a", "b"])}
            s["data"]["uid"] = uid
            evs.append(s)
            if not edge and rng.random() < 0.08:
                # the same observation recorded more than once (distinct legacy ids, identical instant/duration/data)
                evs += [copy.deepcopy(s) for _ in range(rng.choice([1, 1, 2]))]
        if rng.random() < 0.25:
            # events whose data Python calls equal although they are different JSON documents (1 / 1.0 / true, 0.0 / -0.0, ...)
            tmpl = rand_event_spec(rng, depth=1)
            evs += [dict(tmpl, ts=tmpl["ts"] + 1000 * j, data=d) for j, d in enumerate(equal_looking_pack(rng))]
        # (an empty string is a value too: a cleared label, a host that reports no name)
        b = dict(id=bid, type=rng.choice(["t", "currentwindow", "currentwindow", ""]), client=rng.choice(["c-" + bid[:3]] * 5 + [""]),
                 hostname=rng.choice(["h", "ünï", "h", "ünï", ""]), events=evs)
        if rng.random() < 0.6:
            b["name"] = rng.choice(["nm", "ä name", ""])
        if rng.random() < 0.6:
            b["data"] = rand_data(rng, 3) or {"k": 1}
        if rng.random() < 0.5:
            b["created"] = [rand_instant(rng), rand_offset(rng)]
        buckets.append(b)
    return dict(testing=rng.random() < 0.5, buckets=buckets, other_profile=rng.random() < 0.3, reopen=rng.random() < 0.5,
                interleave=rng.choice([0, 0, 1, 7, 60]))


def _sha(path):
    with open(path, "rb") as f:
        return hashlib.sha256(f.read()).hexdigest()


def _build_legacy(testing, buckets, interleave=0):
    from aw_datastore import Datastore
    from aw_datastore.storages import PeeweeStorage
    ds = Datastore(PeeweeStorage, testing=testing)
    if interleave:
        # the watchers wrote in turns: the rows of one bucket do not form one run in the legacy events table
        pending = {}
        for b in buckets:
            pending[b["id"]] = [mk_event(s) for s in b["events"]]
            b = dict(b, events=[])
        step = 0
        created = {}
        for b in buckets:
            kw = dict(type=b["type"], client=b["client"], hostname=b["hostname"])
            if "name" in b:
                kw["name"] = b["name"]
            if "data" in b:
                kw["data"] = b["data"]
            if "created" in b:
                kw["created"] = mk_dt(*b["created"])
            created[b["id"]] = ds.create_bucket(b["id"], **kw)
        while any(pending.values()):
            for bid, evs in pending.items():
                if evs:
                    n = 1 if (step + len(bid)) % 3 == 0 else interleave
                    chunk, pending[bid] = evs[:n], evs[n:]
                    if len(chunk) == 1:
                        created[bid].insert(chunk[0])
                    else:
                        created[bid].insert(chunk)
            step += 1
        buckets = []
    for b in buckets:
        kw = dict(type=b["type"], client=b["client"], hostname=b["hostname"])
        if "name" in b:
            kw["name"] = b["name"]
        if "data" in b:
            kw["data"] = b["data"]
        if "created" in b:
            kw["created"] = mk_dt(*b["created"])
        bk = ds.create_bucket(b["id"], **kw)
        if b["events"]:
            bk.insert([mk_event(s) for s in b["events"]])
    st = ds.storage_strategy
    content = {}
    for bid, md in st.buckets().items():
        evs = st.get_events(bid, -1)
        content[bid] = (md, Counter((dt_us(e.timestamp), td_us(e.duration), canon(e.data)) for e in evs),
                        all(e.id is not None for e in evs))
    st.db.close()
    return content


def run_case(case, ctx):
    from aw_core import dirs
    from aw_datastore.storages import SqliteStorage
    _n[0] += 1
    root = os.path.join(ctx.tmp, f"xdg-{os.getpid()}-{_n[0]}")
    os.makedirs(root)
    old = os.environ.get("XDG_DATA_HOME")
    os.environ["XDG_DATA_HOME"] = root
    viols = []
    testing = case["testing"]
    try:
        data_dir = dirs.get_data_dir("aw-server")
        if not os.path.realpath(data_dir).startswith(os.path.realpath(root)):
            raise RuntimeError(f"data dir {data_dir} escaped the private root {root}")
        legacy_other = None
        if case["other_profile"]:
            # the other profile has a legacy file of its own; one of its buckets has the id of a bucket of this profile
            shared = case["buckets"][0]["id"] if case["buckets"] else "other-profile-bucket"
            legacy_other = _build_legacy(not testing, [
                dict(id="other-profile-bucket", type="t", client="c", hostname="h", events=[dict(ts=10**15, dur=1000, data={"uid": -1})]),
                dict(id=shared, type="t-other", client="c-other", hostname="h-other",
                     events=[dict(ts=10**15 + i * 10**6, dur=500, data={"uid": -2 - i}) for i in range(3)])][: 2 if shared != "other-profile-bucket" else 1])
        legacy = _build_legacy(testing, case["buckets"], case.get("interleave", 0))
        lpath = os.path.join(data_dir, "peewee-sqlite" + ("-testing" if testing else "") + ".v2.db")
        if not os.path.isfile(lpath):
            raise RuntimeError(f"legacy file not where expected: {os.listdir(data_dir)}")
        h0 = _sha(lpath)
        before = _count[0]
        try:
            sq = SqliteStorage(testing=testing)
        except Exception as ex:  # noqa: BLE001
            return [("migration-raised", f"{type(ex).__name__}: {ex}")], dict(sig=("raised",), nontrivial=True)
        if _count[0] != before + 1:
            return [("migration-not-triggered", f"creating the default sqlite store beside {os.path.basename(lpath)} did not migrate")], \
                dict(sig=("not-triggered",), nontrivial=True)
        ctx.count("migrations_triggered")
        if case.get("reopen"):
            # the process that created the store ends without having read or written anything else (no crash: the
            # connection is simply closed), and the new store is opened again: the migration never runs twice, so
            # whatever it left uncommitted is gone for good
            sq.conn.close()
            sq = SqliteStorage(testing=testing)
            if _count[0] != before + 1:
                viols.append(("migration-ran-again-on-reopen", f"{_count[0] - before} runs"))
            ctx.count("stores_reopened_before_comparing")
        try:
            new = sq.buckets()
            if set(new) != set(legacy):
                viols.append(("bucket-set-differs", f"legacy={sorted(legacy)} new={sorted(new)}"))
            for bid, (md, evs, had_ids) in legacy.items():
                if bid not in new:
                    continue
                nm = new[bid]
                ctx.count("buckets_compared")
                for f in ("id", "type", "client", "hostname", "name"):
                    if nm.get(f) != md.get(f):
                        viols.append((f"bucket-{f}-differs", f"bucket={bid!r} legacy={md.get(f)!r} new={nm.get(f)!r}"))
                if dt_us(iso8601.parse_date(nm["created"])) != dt_us(iso8601.parse_date(md["created"])):
                    viols.append(("bucket-created-differs", f"bucket={bid!r} legacy={md['created']} new={nm['created']}"))
                if canon(nm.get("data")) != canon(md.get("data")):
                    viols.append(("bucket-data-differs", f"bucket={bid!r} legacy={canon(md.get('data'))[:200]} new={canon(nm.get('data'))[:200]}"))
                got = Counter((dt_us(e.timestamp), td_us(e.duration), canon(e.data)) for e in sq.get_events(bid, -1))
                ctx.count("events_compared", sum(evs.values()))
                if got != evs:
                    lost, extra = sum((evs - got).values()), sum((got - evs).values())
                    kind = "events-lost" if lost and not extra else ("events-duplicated-or-invented" if extra and not lost else "events-differ")
                    viols.append((kind, f"bucket={bid!r} legacy={sum(evs.values())} new={sum(got.values())} lost={lost} extra={extra} "
                                        f"legacy_events_carried_ids={had_ids} e.g. {list((evs - got).elements())[:1]!r:.300}"))
        finally:
            sq.conn.close()
        if legacy_other is not None and not viols:
            # the same process now creates the default store of the OTHER profile as well: it must get that profile's own
            # legacy content, not this one's
            try:
                sq2 = SqliteStorage(testing=not testing)
            except Exception as ex:  # noqa: BLE001
                return [("migration-of-the-other-profile-raised", f"{type(ex).__name__}: {ex}")], dict(sig=("raised",), nontrivial=True)
            try:
                new2 = sq2.buckets()
                if set(new2) != set(legacy_other):
                    viols.append(("other-profile:bucket-set-differs", f"legacy={sorted(legacy_other)} new={sorted(new2)}"))
                for bid, (md, evs, _had) in legacy_other.items():
                    if bid not in new2:
                        continue
                    if any(new2[bid].get(f) != md.get(f) for f in ("type", "client", "hostname")):
                        viols.append(("other-profile:bucket-metadata-differs", f"bucket={bid!r} legacy={md!r:.200} new={new2[bid]!r:.200}"))
                    got = Counter((dt_us(e.timestamp), td_us(e.duration), canon(e.data)) for e in sq2.get_events(bid, -1))
                    if got != evs:
                        viols.append(("other-profile:events-differ", f"bucket={bid!r} legacy={sum(evs.values())} new={sum(got.values())}"))
                ctx.count("both_profiles_migrated_in_one_process")
            finally:
                sq2.conn.close()
        if _sha(lpath) != h0:
            viols.append(("legacy-file-modified", os.path.basename(lpath)))
    finally:
        try:
            import aw_datastore.storages.peewee as pw
            if not pw._db.is_closed():
                pw._db.close()
        except Exception:  # noqa: BLE001
            pass
        if old is None:
            os.environ.pop("XDG_DATA_HOME", None)
        else:
            os.environ["XDG_DATA_HOME"] = old
        shutil.rmtree(root, ignore_errors=True)
    nb = len(case["buckets"])
    ne = sum(len(b["events"]) for b in case["buckets"])
    sig = (testing, min(nb, 3), 0 if ne == 0 else (1 if ne < 100 else (2 if ne < 300 else (3 if ne < 999 else 4))),
           any("data" in b for b in case["buckets"]), any("name" in b for b in case["buckets"]), case["other_profile"])
    return viols, dict(sig=sig, nontrivial=ne > 0)
