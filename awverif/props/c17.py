"""C17 — any query text either parses or is rejected with a query error, and terminates."""
import os
import random
import signal
import traceback

from .. import hooks, qlang
from ..backends import BACKENDS, Store
from ..gen import canon, mk_dt

ID = "C17"
LEVEL = "exploration"
ANCHOR_FILES = ["aw_query/query2.py", "aw_query/functions.py"]
REQUIRED_COUNTERS = ["texts_run", "class_mapping_checked", "activations_counted"]
RULE = ("query texts of five kinds: (a) random text of length 0-80 over the token alphabet (letters, digits, _ \" ' ( ) "
        "[ ] { } , : = ; \\ . - #, space, newline, a few non-ASCII letters and digits); (b) valid generated programs "
        "with 1-3 random edits (delete / duplicate / swap / insert a character); (c) targeted shapes (blank and "
        "whitespace-only arguments, stray and doubled separators, unbalanced brackets and quotes, trailing commas); "
        "(d) single-fault programs with a known error class (unknown variable/function, too few/many arguments, "
        "wrong top-level argument type for every typed parameter of every built-in, unknown bucket - also one that existed "
        "and was queried successfully before it was deleted -, curated malformed shapes); (e) long texts: one token of thousands of characters (digit runs straddling the interpreter's int-conversion limit, identifiers, strings, a run of one alphabet character), thousands of statements, and brackets / calls / dict values nested 30-1500 levels deep, balanced or not; (f) stack-limit sweeps: one of 24 inner expressions (every kind of built-in call on real bucket data, literals) wrapped in d brackets / calls / dict values, on a store of each backend: the depth at which it first fails is found by bisection (mostly under a reduced interpreter stack limit of 150-333 frames above the caller, in the thorough tier also under the natural limit) and EVERY depth from 40 below to 6 above it is judged. Each is run through aw_query.query with an activation budget; non-trivial = the text is "
        "rejected or was corrupted; signature = (kind, outcome class, innermost raising function)")
ASSUMPTIONS = ["an exception whose traceback runs the body of a built-in is outside the statement (counted, not judged) - unless a RecursionError is in its cause/context chain: the stack ran out because of how deeply the text is nested, and that must come out as a query error wherever it struck",
               "a malformed text that the interpreter accepts and evaluates satisfies 'yields a value' (counted as lenient_accept)",
               "termination is restated as: at most 5000 + 3000*len(text) activations of interpreter code AND at most 15 s of processor time (ITIMER_VIRTUAL, not wall clock) per text; a 90 s wall-clock watchdog is inconclusive"]

_S = {}
ALPHABET = list("abcxyzRETURN_019 \"'()[]{},:=;\\.-#\n\t") + ["é", "日", "①", "٣", "²", "true", "nop", "query_bucket", "RETURN"] + [
    # code points without a Unicode name (controls, a lone surrogate, private use, a noncharacter, unassigned) and invisible or
    # look-alike ones, as pasted text carries them
    "\x00", "\x01", "\x1b", "\x7f", "\x9b", "\ud800", "\ue000", "\uffff", "\u0378", "\u200b", "\u201c", "\u2028", "\ufeff", "\U0001f600"]


class Watchdog(BaseException):
    pass


class CpuBudget(BaseException):
    pass


CPU_BUDGET_S = 15.0      # processor time of this process spent inside ONE call of aw_query.query (the texts are tens of thousands of characters at most)


def plan(tier):
    return dict(workers=16, cases=480_000 if tier == "quick" else 8_000_000, time_s=45 if tier == "quick" else 900)


def setup(ctx):
    reg = qlang.Registry()
    st = Store("memory", ctx.tmp)
    rng = random.Random("c17-data")      # the same data in every worker, so that a replay sees what the run saw
    lo, hi = qlang.populate(st.ds, rng, 1_600_000_000_000_000)
    counter = hooks.ActivationCounter(os.path.join(os.environ["AWVERIF_REPO"], "aw_query"))
    counter.start()
    _S.update(reg=reg, st=st, lo=lo, hi=hi, counter=counter, bodies=reg.bodies(), typed=typed_parameters(reg))

    def on_alarm(signum, frame):
        raise Watchdog()

    signal.signal(signal.SIGALRM, on_alarm)

    def on_cpu(signum, frame):
        raise CpuBudget()

    signal.signal(signal.SIGVTALRM, on_cpu)


def teardown(ctx):
    _S["counter"].stop()
    _S["reg"].restore()
    for st in _S.get("more_stores", {}).values():
        st.close()


def typed_parameters(reg):
    """{builtin: (n_user_params, [(position, annotation)])} read from the bodies' signatures"""
    from inspect import signature
    out = {}
    for name, fn in reg.orig.items():
        f = fn
        while hasattr(f, "__wrapped__"):
            f = f.__wrapped__
        params = [p for p in signature(f).parameters.values()
                  if getattr(p.annotation, "__name__", "") != "Datastore" and "Dict" not in str(p.annotation)]
        typed = [(i, p.annotation) for i, p in enumerate(params)
                 if p.annotation in (list, str, int, float) and p.default is p.empty]
        required = sum(1 for p in params if p.default is p.empty)
        out[name] = (required, len(params), typed)
    # which parameters of which built-in take a list / str / int is part of the language, not of one implementation's
    # annotations: the table recorded from the pinned tree decides (a built-in or a parameter it does not know is taken from
    # the signatures as above)
    try:
        import json
        table = json.load(open(os.path.join(os.path.dirname(os.path.dirname(os.path.abspath(__file__))), "q2_typed_parameters.json")))
        kinds = {"list": list, "str": str, "int": int, "float": float}
        for name, (req, tot, typed) in table.items():
            if name in out:
                out[name] = (req, tot, [(i, kinds[a]) for i, a in typed])
    except FileNotFoundError:
        pass
    return out


_SAMPLE_OF = {list: '["a"]', str: '"app"', int: "3", float: "3"}
_WRONG_FOR = {list: ["3", '"s"', '{"a": 1}'], str: ["3", '["a"]', '{"a": 1}'], int: ['"s"', "[1]", '{"a": 1}'],
              float: ['"s"', "[1]"]}


def fault_programs(rng):
    """(text, expected exception class name, fault kind)"""
    typed = _S["typed"]
    name = rng.choice(sorted(typed))
    required, total, tp = typed[name]
    good = []
    from inspect import signature
    f = _S["reg"].orig[name]
    while hasattr(f, "__wrapped__"):
        f = f.__wrapped__
    params = [p for p in signature(f).parameters.values()
              if getattr(p.annotation, "__name__", "") != "Datastore" and "Dict" not in str(p.annotation)]
    by_pos = dict(tp)
    for i in range(required):
        ann = by_pos.get(i, params[i].annotation if i < len(params) else None)
        good.append(_SAMPLE_OF.get(ann, "1"))
    k = rng.randrange(8)
    if k == 0:
        return f"RETURN = {rng.choice(['undefined_var', 'x1', 'Nope'])}", "QueryInterpretException", "unknown-variable"
    if k == 1:
        return f"RETURN = {rng.choice(['no_such_fn', 'nopp', 'Query_bucket'])}({', '.join(good)})", "QueryInterpretException", "unknown-function"
    if k == 2 and required > 0:
        return f"RETURN = {name}({', '.join(good[:rng.randrange(0, required)])})", "QueryInterpretException", "too-few-arguments"
    if k == 3:
        extra = good + ["1"] * (total - required + 1)
        return f"RETURN = {name}({', '.join(extra)})", "QueryInterpretException", "too-many-arguments"
    if k == 4 and tp:
        i, ann = rng.choice(tp)
        args = list(good)
        args[i] = rng.choice(_WRONG_FOR[ann])
        return f"RETURN = {name}({', '.join(args)})", "QueryFunctionException", "wrong-argument-type"
    if k == 5 and rng.random() < 0.4:
        # no bucket answers to that description: the filter matches nothing, or it matches but no such bucket is on that host
        args = rng.choice(['"no-such-watcher"', '"no-such-watcher", "host"', '"aw-watcher", "another-host"', '"window", ""',
                           '"afk", "HOST"', '"", "nowhere"'])
        if args == '"window", ""':
            return f"RETURN = find_bucket({args})", "value", "find-bucket-empty-hostname"
        return f"RETURN = find_bucket({args})", "QueryFunctionException", "unknown-bucket"
    if k == 5:
        fn = rng.choice(["query_bucket", "query_bucket_eventcount"])
        return f'RETURN = {fn}("{rng.choice(["nope", "aw-watcher", ""])}")', "QueryFunctionException", "unknown-bucket"
    shapes = [("x =", "empty-value"), ("RETURN = ", "empty-value"), ("1 = 2", "non-variable-target"),
              ('"a" = 1', "non-variable-target"), ("f(1) = 2", "non-variable-target"), ("x = 1", "no-return"),
              ("", "no-return"), (";;", "no-return"), ('RETURN = "abc', "unclosed-string"), ("RETURN = 'abc", "unclosed-string"),
              ("RETURN = {1: 2}", "non-string-dict-key"), ("RETURN = {[1]: 2}", "non-string-dict-key"),
              ('RETURN = {"a" 1}', "dict-key-without-colon"), ('RETURN = {"a"}', "dict-key-without-colon"),
              ('RETURN = {"a", "b"}', "dict-key-without-colon")]
    t, kind = rng.choice(shapes)
    return t, "QueryParseException", kind


TARGETED = ["RETURN = nop( )", "RETURN = nop(  \n )", "RETURN = vp1( , 1)", "RETURN = vp2(1,,2)", "RETURN = vp2(1, 2,)",
            "RETURN = vp1(1,)", "RETURN = [1,,2]", "RETURN = [,1]", "RETURN = [ ]", "RETURN = { }", "RETURN = {,}",
            'RETURN = {"a":}', 'RETURN = {"a": 1,}', 'RETURN = {"a": 1,, "b": 2}', "RETURN = [1", "RETURN = 1]", "RETURN = (1)",
            "RETURN = vp1(1", "RETURN = vp1 1)", "RETURN = vp1((1))", 'RETURN = "a', "RETURN = a'", 'RETURN = "a"b"',
            "RETURN = [[1], [2]", "RETURN = {\"a\": [1}", "RETURN = {\"a\": {\"b\": 1}", "= 1", "RETURN", "RETURN == 1", "RETURN = = 1",
            "RETURN = 1 2", "RETURN = 1;;RETURN", "RETURN = ①", "RETURN = ٣", "RETURN = ²", "x = 1; RETURN = x x", "RETURN = -1",
            "RETURN = 1.5", "RETURN = nop()()", "RETURN = nop().x", "RETURN = [1][0]", "RETURN = sort_by_timestamp()",
            "RETURN = filter_keyvals([])", "RETURN = limit_events()", "RETURN = query_bucket()", "RETURN = find_bucket()",
            "RETURN = vp3(1)", "RETURN = categorize()", "RETURN = \\", "RETURN = '\\'", "RETURN=nop(\t)", "é = 1; RETURN = é",
            "RETURN = vp1(\n)", "RETURN = [\n]", "RETURN = vp1([ ])", "RETURN = {\"a\": nop( )}"]


def gen_case(rng, ctx):
    q = _S.setdefault("sweep_queue", [])
    if q:
        return q.pop()
    quota = 4 if ctx.tier == "quick" else 96
    if _S.get("sweeps", 0) < quota and rng.random() < (0.0004 if ctx.tier == "quick" else 0.0003):
        _S["sweeps"] = _S.get("sweeps", 0) + 1
        q.extend(plan_sweep(ctx, _S["sweeps"] - 1))
        if q:
            return q.pop()
    r = rng.random()
    if r < 0.35:
        n = rng.randrange(0, 81)
        text = "".join(rng.choice(ALPHABET) for _ in range(n))
        if rng.random() < 0.5:
            text = "RETURN = " + text
        return dict(kind="random", text=text[:120])
    if r < 0.75:
        g = qlang.ProgGen(rng, max_depth=rng.choice([1, 2, 3]))
        text = qlang.render_program(g.program(), qlang.Spacing(rng), rng)
        edits = []
        for _ in range(rng.randrange(1, 4)):
            if not text:
                break
            i = rng.randrange(len(text))
            e = rng.randrange(4)
            if e == 0:
                text = text[:i] + text[i + 1:]
            elif e == 1:
                text = text[:i] + text[i] + text[i:]
            elif e == 2 and i + 1 < len(text):
                text = text[:i] + text[i + 1] + text[i] + text[i + 2:]
            else:
                text = text[:i] + rng.choice(ALPHABET) + text[i:]
            edits.append(e)
        return dict(kind="corrupted", text=text, edits=edits)
    if r < 0.76:
        # a bucket that existed when an earlier query named it and has been deleted since is an unknown bucket
        return dict(kind="deleted-bucket", text=f'RETURN = {rng.choice(["query_bucket", "query_bucket_eventcount"])}("temp-bucket-{rng.randrange(3)}")',
                    bucket=f"temp-bucket-{rng.randrange(3)}", fault="deleted-bucket", expect="QueryFunctionException")
    if r < 0.83:
        t = rng.choice(TARGETED)
        if rng.random() < 0.3:
            t = "x = 1; " + t
        return dict(kind="targeted", text=t)
    if r < 0.836:
        return dict(kind="long", text=long_text(rng))
    text, cls, fault = fault_programs(rng)
    if cls != "QueryParseException" and rng.random() < 0.3:
        # the same fault after a harmless assignment to a variable the program never reads - names an implementation might
        # be tempted to use for something of its own included
        var = rng.choice(["x", "BUCKETS", "buckets", "CACHE", "_cache", "DATASTORE", "datastore", "namespace", "functions", "EVENTS",
                          "PERIOD", "START", "END", "fetched", "parsed", "TRUE", "None_", "self", "q2_nop", "nop_"])
        val = rng.choice(['1', '"s"', '[]', '{}', '{"ghost": 1, "nope": 1, "aw-watcher": 1, "": 1}', '["nope", "ghost"]', '"nope"'])
        text = f"{var} = {val}; {text}"
        fault = fault + "+unrelated-assignment"
    elif text.startswith("RETURN = ") and ";" not in text and rng.random() < 0.3:
        # the same fault in a statement that comes AFTER (or between) statements assigning RETURN: every statement of the
        # text is run, wherever the result variable is assigned
        expr = text[len("RETURN = "):]
        text = rng.choice([f"RETURN = 1; x = {expr}", f"RETURN = 1; RETURN = {expr}", f"RETURN = 1; x = {expr}; RETURN = 2",
                           f"x = 1; RETURN = x; y = {expr};"])
        fault = fault + "+after-return"
    return dict(kind="fault", text=text, expect=cls, fault=fault)


_W, _A, _WEB = (f'query_bucket("{b}")' for b in qlang.BUCKETS)
_SWEEP_INNERS = [f'query_bucket_eventcount("{qlang.BUCKETS[0]}")', _A, 'find_bucket("aw-watcher-web")', "nop()", f"sum_durations({_A})",
                 f"flood({_W})", f"sort_by_duration({_W})", f'merge_events_by_keys({_W}, ["app"])',
                 f'categorize({_W}, [[["Work"], {{"type": "regex", "regex": "vim"}}]])', f"split_url_events({_WEB})",
                 f"period_union({_A}, {_W})", f"filter_period_intersect({_W}, {_A})", f"union_no_overlap({_W}, {_A})",
                 f"limit_events({_W}, 2)", f'chunk_events_by_key({_W}, "app")', f'simplify_window_titles({_W}, "title")',
                 f'filter_keyvals({_A}, "status", ["not-afk"])', f"sort_by_timestamp({_WEB})", f"concat({_W}, {_A})",
                 f'query_bucket_eventcount("{qlang.BUCKETS[2]}")', "1", '"s"', '{"k": [1]}', "[]"]
_SWEEP_OPENERS = [("[", "]"), ("vp1(", ")"), ('{"a": ', "}"), ("[vp1(", ")]")]
_SWEEP_POSITIONS = ["RETURN = {}", "x = {}; RETURN = x", "RETURN = [1, {}]"]


def _sweep_text(inner, opener, position, depth):
    o, c = opener
    return position.format(o * depth + inner + c * depth)


def _depth_now():
    import sys
    f, n = sys._getframe(), 0
    while f is not None:
        f, n = f.f_back, n + 1
    return n


def _with_headroom(headroom, fn):
    """Runs fn() with the interpreter's stack limit set `headroom` frames above the caller (None: the limit as it is).
    A small stack makes the place where it runs out cheap to reach; what happens there is the same."""
    import sys
    if headroom is None:
        return fn()
    old = sys.getrecursionlimit()
    sys.setrecursionlimit(_depth_now() + headroom)
    try:
        return fn()
    finally:
        sys.setrecursionlimit(old)


def plan_sweep(ctx, k):
    """The k-th sweep of this worker: one built-in call wrapped in ever more brackets / calls / dict values. Somewhere
    the interpreter's stack runs out; on the way there, EVERY depth must give a value or a query error. The depth at
    which it first fails is found by bisection, then every depth in a band around it is queued as a case of its own.
    Most sweeps run under a reduced stack limit (the band is then ~100 levels deep and cheap), some under the natural one."""
    import aw_query
    j = ctx.widx + 16 * k
    inner = _SWEEP_INNERS[j % len(_SWEEP_INNERS)]
    opener = _SWEEP_OPENERS[(j // len(_SWEEP_INNERS) + j) % len(_SWEEP_OPENERS)]
    position = _SWEEP_POSITIONS[(j // 7) % len(_SWEEP_POSITIONS)]
    backend = BACKENDS[(j // 3 + k) % 3]
    natural = ctx.tier != "quick" and k % 6 == 5
    headroom = None if natural else [150, 200, 260, 333][(j // 5) % 4]
    ds = _store_of(backend, ctx).ds
    start, end = mk_dt(_S["lo"]), mk_dt(_S["hi"])

    def is_value(depth, h=headroom):
        try:
            _with_headroom(h, lambda: aw_query.query("q", _sweep_text(inner, opener, position, depth), start, end, ds))
            return True
        except Exception:  # noqa: BLE001 - only locating the band here; every depth in it is judged by run_case
            return False

    top = 1100 if natural else headroom + 10
    if not is_value(1, None) or not is_value(1) or is_value(top):
        ctx.count("stack_limit_bands_not_found")
        return []
    lo, hi = 1, top
    while hi - lo > 1:
        mid = (lo + hi) // 2
        if is_value(mid):
            lo = mid
        else:
            hi = mid
    ctx.count("stack_limit_bands_located")
    ctx.count("stack_limit_bands_located." + ("natural-limit" if natural else "reduced-limit"))
    return [dict(kind="limit-sweep", text=_sweep_text(inner, opener, position, d), backend=backend, depth=d, first_failing=hi,
                 inner=inner, headroom=headroom) for d in range(max(1, hi - 40), hi + 7)]


def _store_of(backend, ctx):
    if backend == "memory":
        return _S["st"]
    stores = _S.setdefault("more_stores", {})
    if backend not in stores:
        stores[backend] = Store(backend, ctx.tmp)
        qlang.populate(stores[backend].ds, random.Random("c17-data"), 1_600_000_000_000_000)
    return stores[backend]


def _chain_has_recursion_error(ex):
    seen = 0
    while ex is not None and seen < 20:
        if isinstance(ex, RecursionError):
            return True
        ex = ex.__cause__ or ex.__context__
        seen += 1
    return False


_OPENERS = [("[", "]"), ("vp1(", ")"), ('{"a": ', "}"), ("[vp1(", ")]"), ("nop(", ")"), ("(", ")")]
_POSITIONS = ["RETURN = {}", "RETURN = [1, {}]", "RETURN = vp1({})", 'RETURN = {{"k": {}}}', "x = {}; RETURN = x", "RETURN = vp2(1, [{}])"]


def long_text(rng):
    """texts whose length or nesting depth, not their shape, is the unusual thing: one token of thousands of characters
    (digits straddling the interpreter's int-conversion limit, identifiers, strings, a run of one alphabet character),
    thousands of statements, and brackets / calls / dict values nested up to a few thousand levels, balanced or not"""
    import sys
    k = rng.randrange(6)
    lim = getattr(sys, "get_int_max_str_digits", lambda: 4300)() or 4300
    if k == 0:
        n = rng.choice([lim - 1, lim, lim + 1, lim + 700, 3 * lim, 100, 1000])
        tok = rng.choice("123456789") + "".join(rng.choice("0123456789") for _ in range(n - 1))
    elif k == 1:
        n = rng.choice([300, 2000, 20000])
        tok = rng.choice(["a", "_", "é", "x1"]) * n
    elif k == 2:
        n = rng.choice([300, 5000, 20000])
        q = rng.choice("\"'")
        tok = q + rng.choice(["x", " ", "\\\\", "é", ",", "[", "="]) * n + (q if rng.random() < 0.8 else "")
    elif k == 3:
        n = rng.choice([200, 1000, 4000])
        tok = rng.choice(ALPHABET) * n
    elif k == 4:
        n = rng.choice([500, 3000])
        return rng.choice(["a = 1;", "a=[1];", ";", "RETURN = 1;", "a = nop();"]) * n + rng.choice(["RETURN = a", "RETURN = 1", ""])
    else:
        depth = rng.choice([30, 200, 600, 900, 990, 1000, 1100, 1500])
        o, c = rng.choice(_OPENERS)
        inner = rng.choice(["1", "", '"s"', "[]", "x"])
        closers = depth if rng.random() < 0.7 else rng.choice([0, depth - 1, depth + 1, depth // 2])
        tok = o * depth + inner + c * closers
    return rng.choice(_POSITIONS).format(tok)


def run_case(case, ctx):
    import aw_query
    from aw_query.exceptions import QueryException
    text = case["text"]
    ds = _store_of(case.get("backend", "memory"), ctx).ds
    if case["kind"] == "deleted-bucket":
        # the bucket named in the text exists, is queried successfully (both built-ins), and is then deleted
        name = text.split('"')[1]
        if name not in ds.buckets():
            ds.create_bucket(name, type="t", client="c", hostname="host")
        start0, end0 = mk_dt(_S["lo"]), mk_dt(_S["hi"])
        for fn in ("query_bucket", "query_bucket_eventcount"):
            try:
                aw_query.query("q", f'RETURN = {fn}("{name}")', start0, end0, ds)
            except Exception as ex:  # noqa: BLE001
                return [("query-of-existing-bucket-failed", f"{fn}({name!r}): {type(ex).__name__}: {ex}")], dict(sig=("deleted-bucket", "setup"), nontrivial=True)
        ds.delete_bucket(name)
        ctx.count("queries_on_deleted_buckets")
    counter = _S["counter"]
    start, end = mk_dt(_S["lo"]), mk_dt(_S["hi"])
    budget = 5000 + 3000 * len(text)
    counter.n, counter.limit = 0, budget
    viols = []
    outcome, where = "value", "-"
    signal.setitimer(signal.ITIMER_REAL, 90.0)
    signal.setitimer(signal.ITIMER_VIRTUAL, CPU_BUDGET_S)
    try:
        try:
            _with_headroom(case.get("headroom"), lambda: aw_query.query("q", text, start, end, ds))
        finally:
            signal.setitimer(signal.ITIMER_VIRTUAL, 0)
            signal.setitimer(signal.ITIMER_REAL, 0)
            used = counter.n
            counter.limit = None
    except Watchdog:
        ctx.inconclusive += 1
        return [], dict(sig=(case["kind"], "watchdog"), nontrivial=False)
    except CpuBudget:
        # not a wall-clock verdict: the interpreter itself consumed that much processor time on one short text (work done
        # inside C code, e.g. a regular-expression match, makes no interpreter activations and escapes the activation budget)
        ctx.count("texts_run")
        return [("processor-time-budget-exceeded", f"more than {CPU_BUDGET_S} s of processor time for a text of {len(text)} chars: {text!r:.200}")], \
            dict(sig=(case["kind"], "cpu-budget"), nontrivial=True)
    except hooks.ActivationCounter.Exceeded:
        viols.append(("activation-budget-exceeded", f"more than {budget} interpreter activations for a text of {len(text)} chars: {text!r:.200}"))
        outcome = "budget"
    except QueryException as ex:
        outcome = type(ex).__name__
        tb = traceback.extract_tb(ex.__traceback__)
        where = tb[-1].name if tb else "-"
    except Exception as ex:  # noqa: BLE001
        outcome = type(ex).__name__
        frames = []
        tb = ex.__traceback__
        in_body = False
        while tb is not None:
            frames.append(tb.tb_frame.f_code)
            if tb.tb_frame.f_code in _S["bodies"]:
                in_body = True
            tb = tb.tb_next
        where = frames[-1].co_name if frames else "-"
        if _chain_has_recursion_error(ex):
            # the interpreter's stack ran out - because of how deeply the TEXT is nested, not because of what a built-in
            # was given - and came out as something else than a query error (whoever re-labelled it on the way)
            viols.append((f"stack-exhaustion-escaped-as:{type(ex).__name__}@{where}",
                          f"{type(ex).__name__}: {ex} raised in {where} for a text of {len(text)} chars: {text[:80]!r}…{text[-40:]!r}"))
        elif in_body:
            ctx.count("builtin_runtime_errors")
            outcome = "builtin:" + outcome
        else:
            viols.append((f"non-query-exception-escaped:{type(ex).__name__}@{where}",
                          f"{type(ex).__name__}: {ex} raised in {where} for text {text!r:.300}"))
    ctx.count("texts_run")
    if case["kind"] == "limit-sweep":
        ctx.count("depths_judged_around_the_stack_limit")
        ctx.count("stack_limit_sweep_outcome." + ("value" if outcome == "value" else "query-error" if not viols else "other"))
    ctx.count("activations_counted", used)
    if case["kind"] in ("fault", "deleted-bucket"):
        ctx.count("class_mapping_checked")
        if outcome != case["expect"] and not viols:
            viols.append((f"wrong-error-class:{case['fault']}", f"{case['fault']}: expected {case['expect']}, got {outcome} for {text!r:.300}"))
    elif outcome == "value" and case["kind"] in ("corrupted", "targeted", "random"):
        ctx.count("lenient_accept_or_still_valid")
    sig = (case["kind"], case.get("fault", ""), outcome, where)
    return viols, dict(sig=sig, nontrivial=outcome != "value" or case["kind"] != "random")
