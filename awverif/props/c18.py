"""C18 — buffered writes are flushed once they are about ten seconds old."""
import os
import time
from datetime import timedelta

from ..gen import canon
from ._crash import HistoryRunner
from .c06 import Observer

ID = "C18"
LEVEL = "fault_enumeration"
ANCHOR_FILES = ["aw_datastore/storages/sqlite.py"]
REQUIRED_COUNTERS = ["real_pauses_judged", "aged_writes_judged"]
PAUSE = 12.0   # "more than about ten seconds"
RULE = ("file-backed SqliteStorage with lazy commit. Ground truth: every worker runs one scenario with a REAL "
        "time.sleep(>= 12 s) between the previous operation and an event write (first write after open, burst then "
        "idle, read then idle, each write kind: insert / bulk / replace / replace_last / delete / upsert / single insert of an event that carries a live id) and checks "
        "through a second read-only connection that the write is committed when it returns. Reach: the same scenario "
        "and generated trickle/burst/idle schedules (with occasional operations the store refuses midway) under a virtual clock patched into the sqlite module (pauses 0 s "
        ".. 1 year, with mass on whole days and whole days + a few seconds); virtual results count only in a worker whose virtual twin of the real scenario gave the same "
        "verdict as real time. slow trickles whose pauses are all short are judged too; evaluations = event writes judged at an age >= 12 s; non-trivial = there were "
        "uncommitted writes pending before the pause; signature = (clock, write kind, pause class, pending class, "
        "previous op kind)")
ASSUMPTIONS = ["the age is measured from the latest operation that MAY have flushed (read, bucket op, multi-statement write, no-op "
               "write, or a single-statement write that came back fully committed): an upper bound on the real last flush",
               "nothing is required of a write issued less than 12 s after that point; a write issued later - single event or batch (bulk inserts of 1-250 events, upserts of 1-4 entries with fresh events mixed in) - must be fully committed when the call returns",
               "a delete of an id the bucket does not hold counts as a write call of the trickle: issued late while something is pending, it must leave nothing pending (it runs the store's commit check on the unchanged tree)",
               "process death only; the observer connection's view = what a crash at that instant leaves"]

SCENARIOS = [
    ("first-write-after-open", [], "insert"),
    ("burst-then-idle", ["insert"] * 5, "insert"),
    ("read-then-idle", ["insert", "insert", "read"], "insert"),
    ("bulk-after-idle", ["insert", "insert"], "bulk"),
    ("replace-after-idle", ["insert", "insert", "insert"], "replace"),
    ("replace-last-after-idle", ["insert", "insert"], "replace_last"),
    ("delete-after-idle", ["insert", "insert", "insert"], "delete"),
    ("upsert-after-idle", ["insert", "insert"], "upsert"),
    ("trickle", ["insert"], "insert"),
    ("delete-missing-after-idle", ["insert"], "delete_missing"),
    ("big-bulk-after-idle", ["insert", "insert"], "bulk", 9),                    # 130 events: a full chunk of 100 and a tail
    ("multi-upsert-after-idle", ["insert", "insert", "insert"], "upsert", 2),    # two rewrites and a fresh event in one call
    ("other-store-busy", ["insert"], "insert"),
    ("insert-with-id-after-idle", ["insert", "insert"], "insert_with_id"),       # the single-event form, the event carries a live id
    ("insert-with-id-after-read", ["insert", "read"], "insert_with_id"),
    ("bulk-of-100-after-idle", ["insert"], "bulk", 7),
    ("replace-last-on-an-empty-bucket-after-idle", [], "replace_last"),
    ("reopened-then-idle", ["insert", "insert", "read", "reopen_main"], "insert"),     # the first write of a process that opened an existing database
    ("reopened-then-idle-replace-last", ["insert", "read", "reopen_main"], "replace_last"),     # another store of the process writes / is reopened just before the late write
]


def plan(tier):
    return dict(workers=16, cases=16 + 4000 if tier == "quick" else 32 + 300_000,
                time_s=45 if tier == "quick" else 300, floor=16,
                watchdog_s=120 if tier == "quick" else 600,
                extra=dict(real_rounds=2 if tier == "quick" else 3))


class VClock:
    offset = timedelta(0)
    installed = None


def install_virtual_clock():
    import aw_datastore.storages.sqlite as m
    if VClock.installed:
        return
    real = m.datetime

    class VirtualDateTime(real):
        @classmethod
        def now(cls, tz=None):
            return real.now(tz) + VClock.offset

    VClock.installed = real
    m.datetime = VirtualDateTime


def uninstall_virtual_clock():
    import aw_datastore.storages.sqlite as m
    if VClock.installed:
        m.datetime = VClock.installed
        VClock.installed = None
        VClock.offset = timedelta(0)


_uid = [0]


def _op(kind, rng_pick=0):
    _uid[0] += 1
    ev = dict(ts=10**15 + _uid[0] * 1000, dur=500, data={"uid": _uid[0]})
    if (rng_pick + _uid[0]) % 6 == 0:
        # an event that reaches into the future of the machine's clock (a watcher whose clock runs ahead): legal, the library
        # merely remarks on it - and whatever it does to find its remark must not stand between the write and its commit
        ev["ts"] = int(time.time()) * 10**6 + 86400 * 10**6 + _uid[0] * 1000
    if kind == "insert":
        return dict(op="insert", b="b", ev=ev)
    if kind == "bulk":
        # sizes on both sides of the count threshold and of likely chunk sizes (a tail of 1-50 after a full chunk)
        n = BULK_SIZES[rng_pick % len(BULK_SIZES)]
        evs = []
        for _ in range(n):
            _uid[0] += 1
            evs.append(dict(ev, ts=10**15 + _uid[0] * 1000, data={"uid": _uid[0]}))
        return dict(op="bulk", b="b", evs=evs)
    if kind == "upsert":
        # 1-4 entries, rewrites of live events and (every third entry) a fresh event mixed in
        items = []
        for j in range(1 + rng_pick % 4):
            _uid[0] += 1
            items.append(dict(ev=dict(ev, ts=10**15 + _uid[0] * 1000, data={"uid": _uid[0]}),
                              pick=None if (rng_pick // 4 + j) % 3 == 2 else rng_pick + 7 * j))
        return dict(op="upsert", b="b", items=items)
    if kind == "read":
        return dict(op="read", b="b", how="get1")
    if kind == "delete_missing":
        return dict(op="delete_missing", b="b", n=_uid[0])
    if kind.startswith("other:"):
        # the same kind of operation on ANOTHER lazily-committing store (its own file) open in the same process
        return dict(_op(kind[6:], rng_pick), store="other") if kind[6:] != "reopen" else dict(op="reopen", store="other")
    if kind.startswith("fail:"):
        return dict(op="fail", b="b", what=kind[5:], ev=ev, ev2=dict(ev, data={"uid": _uid[0] + 10**7}))
    return dict(op=kind, b="b", ev=ev, pick=rng_pick, empty_ok=True)


BULK_SIZES = [3, 1, 2, 3, 5, 30, 51, 100, 101, 130, 250, 3, 3]
SINGLE_STATEMENT_WRITES = ("insert", "replace", "replace_last", "delete", "insert_with_id")


def run_schedule(steps, ctx, clock, sleeper):
    """steps: list of (pause_s, op). Returns list of judged points: (ok, info).

    The age of the buffered data is measured from the latest operation that MAY have flushed (t_flush): a read, a
    bucket-level operation, a multi-statement write (a commit can sit between its statements), a write that changed
    nothing, or a single-statement write after which the committed view equalled the writer's view. That is an upper
    bound on the store's real last flush, so 'now - t_flush >= 12 s' implies 'more than about ten seconds after the
    previous flush' under every reading - also for a slow trickle whose individual pauses are all short."""
    path = os.path.join(ctx.tmp, f"c18-{os.getpid()}-{int(time.monotonic() * 1e6) % 10**10}.db")
    hr = HistoryRunner("sqlite", path, ctx.tmp)
    obs = Observer(path, "sqlite")
    judged = []
    other = None
    opath = path[:-3] + "-other.db"

    def now():
        return time.monotonic() + (VClock.offset.total_seconds() if clock == "virtual" else 0.0)

    try:
        hr.run_op(dict(op="create_bucket", b="b"))
        hr.refresh()
        t_flush = now()
        prev_kind = "create_bucket"
        for pause, op in steps:
            if op.get("store") == "other":
                # what another store of the same process does is none of this store's business: it neither flushes this
                # store nor makes its data any younger
                if pause > 0:
                    sleeper(pause)
                if other is None or op["op"] == "reopen":
                    if other is not None:
                        other.close(remove=False)
                    other = HistoryRunner("sqlite", opath, ctx.tmp)
                    if "b" not in other.buckets():
                        other.run_op(dict(op="create_bucket", b="b"))
                    other.refresh()
                if op["op"] != "reopen":
                    other.run_op({k: v for k, v in op.items() if k != "store"})
                    other.refresh()
                ctx.count("operations_on_another_store_in_between")
                continue
            if op["op"] == "reopen_main":
                # the process that owns the store goes away and another one opens the same file (pending data, if any, is
                # lost with the old connection - that is C06's subject); opening commits, so the age starts anew
                if pause > 0:
                    sleeper(pause)
                hr.close(remove=False)
                hr = HistoryRunner("sqlite", path, ctx.tmp)
                hr.refresh()
                t_flush = now()
                prev_kind = "reopen"
                ctx.count("stores_reopened_mid_schedule")
                continue
            committed_before = obs.snapshot() or frozenset()
            view_before = hr.view
            pending = len(view_before ^ committed_before)
            if pause > 0:
                sleeper(pause)
            t_call = now()
            age = t_call - t_flush
            done = hr.run_op(op)
            hr.refresh()
            committed = obs.snapshot()
            kind = op["op"]
            single = kind in SINGLE_STATEMENT_WRITES or (kind == "upsert" and len(op.get("items", [])) == 1)
            changed = hr.view != view_before
            if committed is None:
                ctx.inconclusive += 1
                t_flush = now()
            else:
                flushed = committed == hr.view
                # (a delete of an id the bucket does not hold is a write call too: it has nothing of its own to make durable,
                # but it is part of the "trickle of writes" that bounds the age of what is pending - judged when something is)
                noop_write = kind == "delete_missing" and pending > 0
                if done is not None and (changed or noop_write) and kind != "read" and age >= PAUSE:
                    # "an event write issued more than about ten seconds after the previous flush is itself made durable
                    # before it returns": the write is the call the client made - a whole batch included - so nothing the
                    # writer can see may be missing from the committed state when the call returns
                    ok = flushed
                    judged.append((ok, dict(clock=clock, write=kind + ("" if single else "(multi)"), pause=pause, age=round(age, 1),
                                            pending_before=pending, prev=prev_kind, missing_rows=len(hr.view ^ committed),
                                            trickle=pause < PAUSE)))
                if not (single and changed) or flushed:
                    t_flush = now()
            prev_kind = kind
    finally:
        obs.close()
        hr.close(remove=True)
        if other is not None:
            other.close(remove=True)
        else:
            from ._crash import remove_db
            remove_db(opath)
    return judged


def _real_sleeper(s):
    time.sleep(s)


def _virtual_sleeper(s):
    VClock.offset += timedelta(seconds=s)


def _record(ctx, judged, case, weight_key):
    viols = []
    for ok, info in judged:
        ctx.count(weight_key)
        ctx.count("aged_writes_judged")
        pc = -1 if info.get("trickle") else 0 if info["pause"] < 13 else (1 if info["pause"] < 60 else (2 if info["pause"] < 86399 else (
            3 if info["pause"] % 86400 < 10 else 4)))
        pend = 0 if info["pending_before"] == 0 else (1 if info["pending_before"] < 10 else 2)
        ctx.sigs.add(canon([info["clock"], info["write"], pc, pend, info["prev"]]))
        if info["pending_before"]:
            ctx.count("judged_with_pending_writes")
        if not ok:
            viols.append((f"aged-write-not-flushed-on-return:{info['clock']}-clock",
                          f"{info['write']} issued {info['age']} s after the latest operation that may have flushed (pause since the "
                          f"previous operation, {info['prev']}: {info['pause']} s) returned with {info['missing_rows']} row change(s) "
                          f"uncommitted (pending before: {info['pending_before']})"))
    return viols


def worker(ctx):
    rounds = ctx.extra.get("real_rounds", 1)
    trusted = True
    for rnd in range(rounds):
        name, pre, final, *fp = SCENARIOS[(ctx.widx + rnd * 7) % len(SCENARIOS)]
        final_pick = fp[0] if fp else ctx.widx
        pause = PAUSE if rnd == 0 else PAUSE + 1 + (ctx.widx * 7 + rnd * 5) % (18 if ctx.tier != "quick" else 3)
        plan_ = [(0, k, i) for i, k in enumerate(pre)] + [(pause, final, final_pick)]
        if name == "other-store-busy":
            plan_ = [(0, "insert", 0), (0, "other:insert", 0), (pause, "other:insert" if ctx.widx % 2 else "other:reopen", 0), (0, "insert", 0)]
        if name == "trickle":
            # no single pause reaches ten seconds, but the second write is ~13 s younger than the last flush
            plan_ = [(0, "insert", 0), (pause / 2 + 0.5, "insert", 0), (pause / 2 + 0.5, "insert", 0)]
        steps = [(p, _op(k, pk)) for p, k, pk in plan_]
        case = dict(kind="real", scenario=name, pause_s=pause, plan=plan_)
        uninstall_virtual_clock()
        real = run_schedule(steps, ctx, "real", _real_sleeper)
        v = _record(ctx, real, case, "real_pauses_judged")
        ctx.record(case, v, sig=None, nontrivial=True, weight=max(1, len(real)))
        # the virtual twin of the same scenario
        install_virtual_clock()
        twin = run_schedule(steps, ctx, "virtual", _virtual_sleeper)
        if [ok for ok, _ in twin] != [ok for ok, _ in real]:
            trusted = False
            ctx.count("virtual_clock_disagrees_with_real_time")
    if not trusted:
        # the store does not read the clock this harness can move: virtual results would mean nothing
        ctx.count("virtual_results_discarded")
        uninstall_virtual_clock()
        return
    ctx.count("virtual_clock_calibrated")
    install_virtual_clock()
    rng = ctx.rng
    try:
        while ctx.more():
            steps, plan_ = [], []
            two_stores = rng.random() < 0.3
            for i in range(rng.randrange(2, 30)):
                kind = rng.choice(["insert", "insert", "insert", "bulk", "replace", "replace_last", "delete", "upsert", "read", "insert_with_id",
                                   "delete_missing", "reopen_main", "fail:upsert_unbindable", "fail:insert_unserializable", "fail:create_existing",
                                   "fail:bulk_unserializable"])
                if two_stores and rng.random() < 0.3:
                    kind = rng.choice(["other:insert", "other:insert", "other:read", "other:bulk", "other:reopen"])
                pause = rng.choice([0, 0, 0, 0.5, 3, 9, 10.5, 11.5, 12, 12.5, 15, 60, 3600, 86399, 86400, 86400, 86404, 86409.5,
                                    86411, 2 * 86400 + 3, 7 * 86400, 30 * 86400 + 6 * 3600, 365 * 86400 + 1,
                                    rng.randrange(12, 40 * 86400) + rng.random()])
                pk = rng.randrange(1000)
                plan_.append((pause, kind, pk))
                steps.append((pause, _op(kind, pk)))
            case = dict(kind="virtual", schedule=[(p, k, pk) for p, k, pk in plan_])
            try:
                judged = run_schedule(steps, ctx, "virtual", _virtual_sleeper)
            except Exception as ex:  # noqa: BLE001 - the history only holds operations the store must accept (refusals are caught inside)
                from ..worker import raised_by_code_under_test
                mine, where = raised_by_code_under_test(ex)
                if not mine:
                    raise
                ctx.record(case, [(f"unexpected-exception:{type(ex).__name__}@{where}", f"{type(ex).__name__}: {str(ex)[:300]}")], sig=None, nontrivial=True)
                continue
            v = _record(ctx, judged, case, "virtual_pauses_judged")
            ctx.record(case, v, sig=None, nontrivial=bool(judged), weight=max(1, len(judged)))
    finally:
        uninstall_virtual_clock()


def run_case(case, ctx):
    """Replay of one recorded schedule (a real one sleeps for real)."""
    if case["kind"] == "real":
        uninstall_virtual_clock()
        steps = [(p, _op(k, pk)) for p, k, pk in case["plan"]]
        judged = run_schedule(steps, ctx, "real", _real_sleeper)
        return _record(ctx, judged, case, "real_pauses_judged"), dict(sig=None, nontrivial=True)
    install_virtual_clock()
    try:
        steps = [(s[0], _op(s[1], s[2] if len(s) > 2 else i)) for i, s in enumerate(case["schedule"])]
        judged = run_schedule(steps, ctx, "virtual", _virtual_sleeper)
        return _record(ctx, judged, case, "virtual_pauses_judged"), dict(sig=None, nontrivial=True)
    finally:
        uninstall_virtual_clock()
