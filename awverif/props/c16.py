"""C16 — grouping, chunking, sorting and filtering conserve events and time."""
from collections import Counter
from datetime import timedelta

from .. import hooks
from ..gen import big_n, canon, exact, maybe_zone, mk_event, rand_grid, td_us
from . import _tx
from ._tx import exc_viol, is_event_list, iv, snap, tmod, unmodified

ID = "C16"
LEVEL = "exploration"
ANCHOR_FILES = ["aw_transform/merge_events_by_keys.py", "aw_transform/chunk_events_by_key.py",
                "aw_transform/sort_by.py", "aw_transform/filter_keyvals.py"]
REQUIRED_COUNTERS = ["monitor.merge_events_by_keys", "monitor.chunk_events_by_key", "monitor.sort_by_timestamp",
                     "monitor.sort_by_duration", "monitor.limit_events", "monitor.filter_keyvals"]
RULE = ("event lists of 0-12 events with missing keys, list-valued keys, equal values under different keys, duplicates, "
        "values from a small pool of strings/ints/flat lists; key lists of 1-3 keys; one call of one of the six "
        "functions per case; non-trivial = at least two events and (merge: two events share a group or equal values "
        "under different keys; chunk: a run of length >= 2; filter: both polarities non-empty; sort/limit: >= 2 "
        "distinct sort keys); signature = function + shape class (group count, presence pattern, run-length pattern, "
        "limit class)")
ASSUMPTIONS = ["values under one key never mix 1/1.0/True (Python equality vs JSON identity)",
               "no dict-valued or nested-list values (unhashable after the list->tuple conversion)",
               "chunk_events_by_key is driven with events that all carry the key; maximal runs are only required of "
               "time-contiguous sorted input"]


def plan(tier):
    return dict(workers=16, cases=240_000 if tier == "quick" else 6_000_000,
                time_s=30 if tier == "quick" else 500)


def _bad_result(result):
    return not is_event_list(result)


# ---------------------------------------------------------------- merge_events_by_keys

def _gsig(data, keys):
    return tuple((k in data, canon(data[k]) if k in data else None) for k in keys)


def pre_merge(events, keys):
    if not (is_event_list(events) and isinstance(keys, list) and 1 <= len(keys) and all(isinstance(k, str) for k in keys)):
        return False
    if len(set(keys)) != len(keys):
        return False
    for e in events:
        for k in keys:
            v = e.data.get(k)
            if isinstance(v, dict) or (isinstance(v, list) and any(isinstance(x, (list, dict)) for x in v)):
                return False
    return True


def post_merge(old, oldkw, result, exc, after, afterkw):
    events, keys = old[0], old[1]
    if exc is not None:
        return exc_viol("mergekeys", exc)
    if _bad_result(result):
        return [("mergekeys-bad-result", repr(result)[:200])]
    v = []
    groups = {}
    for e in events:
        groups.setdefault(_gsig(e.data, keys), []).append(e)
    got = Counter(_gsig(r.data, keys) for r in result)
    if set(got) != set(groups) or any(n != 1 for n in got.values()):
        merged = [g for g in groups if g not in got]
        kind = "mergekeys-groups-conflated" if len(result) < len(groups) else "mergekeys-groups-wrong"
        v.append((kind, f"keys={keys} distinct_groups={len(groups)} results={len(result)} missing={merged[:3]} "
                        f"in={[canon(e.data) for e in events][:8]}"))
    else:
        for r in result:
            g = groups[_gsig(r.data, keys)]
            want = sum((e.duration for e in g), timedelta(0))
            if r.duration != want:
                v.append(("mergekeys-duration-not-group-sum", f"group={_gsig(r.data, keys)} want={want} got={r.duration}"))
                break
            wantdata = {k: g[0].data[k] for k in keys if k in g[0].data}
            if exact(r.data) != exact(wantdata):
                v.append(("mergekeys-data-not-key-values", f"want={canon(wantdata)} got={canon(r.data)}"))
                break
    if sum((r.duration for r in result), timedelta(0)) != sum((e.duration for e in events), timedelta(0)):
        v.append(("mergekeys-total-duration-not-conserved",
                  f"in={sum(td_us(e.duration) for e in events)} out={sum(td_us(r.duration) for r in result)}"))
    v += unmodified("mergekeys", events, after[0])
    return v


# ---------------------------------------------------------------- chunk_events_by_key

def pre_chunk(events, key, pulsetime=5.0):
    return is_event_list(events) and isinstance(key, str) and all(key in e.data for e in events) \
        and all(not isinstance(e.data[key], dict) for e in events)


def post_chunk(old, oldkw, result, exc, after, afterkw):
    events, key = old[0], old[1]
    if exc is not None:
        return exc_viol("chunk", exc)
    if _bad_result(result):
        return [("chunk-bad-result", repr(result)[:200])]
    v = []
    subs = []
    for c in result:
        se = c.data.get("subevents")
        if not is_event_list(se) or not se:
            return [("chunk-without-subevents", canon({k: x for k, x in c.data.items() if k != "subevents"}))]
        subs.extend(se)
        if any(canon(s.data[key]) != canon(c.data.get(key)) for s in se):
            v.append(("chunk-mixed-values", f"chunk value={canon(c.data.get(key))} subs={[canon(s.data[key]) for s in se][:6]}"))
        if c.duration != sum((s.duration for s in se), timedelta(0)):
            v.append(("chunk-duration-not-sum", f"chunk={td_us(c.duration)} subs={[td_us(s.duration) for s in se][:6]}"))
        if c.timestamp != se[0].timestamp:
            v.append(("chunk-timestamp-not-first", f"{c.timestamp} vs {se[0].timestamp}"))
    if snap(subs) != snap(events):
        v.append(("chunk-subevents-do-not-concatenate-to-input", f"in={len(events)} subs={len(subs)} key={key} "
                                                                 f"vals={[canon(e.data[key]) for e in events][:10]}"))
    # (only for sequences that run forward in time: the function's pulsetime test looks at end instants, and "contiguous"
    # means nothing for an event that ends before it starts)
    contiguous = all(iv(a)[1] == iv(b)[0] for a, b in zip(events, events[1:])) and all(iv(e)[1] >= iv(e)[0] for e in events)
    if contiguous and not v:
        for a, b in zip(result, result[1:]):
            if canon(a.data[key]) == canon(b.data[key]):
                v.append(("chunk-runs-not-maximal", f"adjacent chunks share value {canon(a.data[key])}"))
                break
    v += unmodified("chunk", events, after[0])
    return v


# ---------------------------------------------------------------- sort / limit / filter

def pre_list(events, *a, **k):
    return is_event_list(events)


def post_sort_ts(old, oldkw, result, exc, after, afterkw):
    events = old[0]
    if exc is not None:
        return exc_viol("sort_ts", exc)
    if _bad_result(result):
        return [("sort_ts-bad-result", repr(result)[:200])]
    v = []
    if Counter(snap(result)) != Counter(snap(events)):
        v.append(("sort_ts-not-a-permutation", f"in={len(events)} out={len(result)}"))
    if any(iv(a)[0] > iv(b)[0] for a, b in zip(result, result[1:])):
        v.append(("sort_ts-not-ascending", f"{[iv(r)[0] for r in result][:8]}"))
    return v + unmodified("sort_ts", events, after[0])


def post_sort_dur(old, oldkw, result, exc, after, afterkw):
    events = old[0]
    if exc is not None:
        return exc_viol("sort_dur", exc)
    if _bad_result(result):
        return [("sort_dur-bad-result", repr(result)[:200])]
    v = []
    if Counter(snap(result)) != Counter(snap(events)):
        v.append(("sort_dur-not-a-permutation", f"in={len(events)} out={len(result)}"))
    if any(a.duration < b.duration for a, b in zip(result, result[1:])):
        v.append(("sort_dur-not-descending", f"{[td_us(r.duration) for r in result][:8]}"))
    return v + unmodified("sort_dur", events, after[0])


def pre_limit(events, count):
    return is_event_list(events) and isinstance(count, int) and not isinstance(count, bool)


def post_limit(old, oldkw, result, exc, after, afterkw):
    events, n = old[0], old[1]
    if exc is not None:
        return exc_viol("limit", exc)
    if _bad_result(result):
        return [("limit-bad-result", repr(result)[:200])]
    v = []
    if snap(result) != snap(events)[:len(result)]:
        v.append(("limit-not-a-prefix", f"n={n} in={len(events)} out={len(result)}"))
    elif n >= 0 and len(result) != min(n, len(events)):
        v.append(("limit-wrong-length", f"n={n} in={len(events)} out={len(result)}"))
    return v + unmodified("limit", events, after[0])


def pre_filter(events, key, vals, exclude=False):
    return is_event_list(events) and isinstance(key, str) and isinstance(vals, list)


def post_filter(old, oldkw, result, exc, after, afterkw):
    events, key, vals = old[0], old[1], old[2]
    exclude = old[3] if len(old) > 3 else oldkw.get("exclude", False)
    if exc is not None:
        return exc_viol("filter", exc)
    if _bad_result(result):
        return [("filter-bad-result", repr(result)[:200])]
    cv = {canon(x) for x in vals}
    want = [e for e in events if ((key in e.data and canon(e.data[key]) in cv) != bool(exclude))]
    v = []
    if snap(result) != snap(want):
        v.append(("filter-wrong-subsequence", f"exclude={exclude} key={key} vals={canon(vals)} "
                                              f"in={[canon(e.data.get(key, '<missing>')) for e in events][:8]} "
                                              f"want={len(want)} got={len(result)}"))
    return v + unmodified("filter", events, after[0])


MON = {}


def monitors():
    sb, fk = tmod("sort_by"), tmod("filter_keyvals")
    return [
        (tmod("merge_events_by_keys"), "merge_events_by_keys", pre_merge, post_merge),
        (tmod("chunk_events_by_key"), "chunk_events_by_key", pre_chunk, post_chunk),
        (sb, "sort_by_timestamp", pre_list, post_sort_ts),
        (sb, "sort_by_duration", pre_list, post_sort_dur),
        (sb, "limit_events", pre_limit, post_limit),
        (fk, "filter_keyvals", pre_filter, post_filter),
    ]


def setup(ctx):
    import aw_query.functions  # noqa: F401 - its aliases of the transforms must exist before they are patched
    for m, n, pre, post in monitors():
        MON[n] = hooks.Monitor(m, n, pre, post).install()


def teardown(ctx):
    for n, mon in MON.items():
        ctx.count(f"monitor.{n}", mon.evaluations)
        ctx.count(f"out_of_domain.{n}", mon.out_of_domain)
        mon.uninstall()


# ---------------------------------------------------------------- generator

_KEYS = ["app", "title", "k1", "k2", "$category"]
# per key a pool in which Python equality and JSON identity agree
_POOLS = [
    ["x", "y", "z", ""],
    ["x", "y", ["x"], ["x", "y"], ["y"], []],
    [1, 2, 3, "1"],
    ["x", "ü", "𝄞", "x "],
    [None, "", 0, [], "x"],       # present-but-falsy values, JSON null among them: not the same thing as a missing key
]


def _events(rng, n, keys_pools, base, unit, contiguous):
    base, unit, zone = maybe_zone(rng, base, unit, 0.08)
    specs = []
    pos = 0
    huge = not contiguous and rng.random() < 0.03
    for i in range(n):
        data = {}
        for k, pool in keys_pools.items():
            if rng.random() < 0.8:
                data[k] = rng.choice(pool)
        if rng.random() < 0.3:
            data["other"] = i
        if rng.random() < 0.5:
            # the same keys and values, filled in another order (events from different sources, a field re-added)
            items = list(data.items())
            rng.shuffle(items)
            data = dict(items)
        dur = rng.choice([0, 1, 1, 2, 5, 60]) * unit + rng.choice([0, 0, 0, 1, 999])
        if huge:
            # durations of decades with a microsecond remainder: totals beyond what a float of seconds holds exactly
            dur = rng.choice([10, 30, 90]) * 31_557_600 * 10**6 + rng.choice([1, 7, 999, 500_001])
        if not contiguous and rng.random() < 0.04:
            dur = -rng.choice([1, 1000, unit, 3 * unit])      # a negative duration (legal for an Event; clock adjustments produce them)
        ts = base + pos
        if contiguous:
            dur -= dur % 1000
            pos += dur
        else:
            # (around a clock change the events crowd into the hours next to it: there the order of wall-clock readings and the
            # order of instants differ)
            pos = rng.randrange(0, 12 if zone and i % 4 else 50) * unit
        specs.append(dict(ts=ts, dur=dur, data=data, **({"id": (i if rng.random() < 0.8 else rng.randrange(0, 3))} if rng.random() < 0.5 else {}),
                          **({"zone": zone} if zone and rng.random() < 0.7 else {})))
    if specs and rng.random() < 0.3:
        specs.append(dict(rng.choice(specs)))
    return specs


def gen_case(rng, ctx):
    base, unit = rand_grid(rng)
    fn = rng.choice(["merge", "merge", "chunk", "chunk", "sort_ts", "sort_dur", "limit", "filter", "filter"])
    n = big_n(rng, rng.randrange(0, 13))
    nk = rng.randrange(1, 4)
    keys = rng.sample(_KEYS, nk)
    shared = rng.choice(_POOLS)
    kp = {k: (shared if rng.random() < 0.6 else rng.choice(_POOLS)) for k in keys}
    contiguous = rng.random() < 0.5
    case = dict(fn=fn, events=None)
    if fn == "chunk":
        kp = {keys[0]: kp[keys[0]]}
        specs = _events(rng, n, kp, base, unit, contiguous)
        for s in specs:
            s["data"].setdefault(keys[0], rng.choice(kp[keys[0]]))
        # runs are likelier when values repeat
        if rng.random() < 0.6:
            for a, b in zip(specs, specs[1:]):
                if rng.random() < 0.5:
                    b["data"][keys[0]] = a["data"][keys[0]]
        case.update(events=specs, key=keys[0])
    elif fn == "merge":
        case.update(events=_events(rng, n, kp, base, unit, contiguous), keys=keys)
    elif fn == "filter":
        specs = _events(rng, n, kp, base, unit, contiguous)
        pool = kp[keys[0]]
        vals = rng.sample(pool, rng.randrange(0, len(pool) + 1))
        case.update(events=specs, key=keys[0], vals=vals)
    elif fn == "limit":
        case.update(events=_events(rng, n, kp, base, unit, contiguous), n=rng.choice([0, 1, 2, n, n + 1, max(0, n - 1), 100]))
    else:
        case.update(events=_events(rng, n, kp, base, unit, False))
    return case


def run_case(case, ctx):
    if case.get("kind") == "query":
        return _tx.run_query_case(case, ctx, MON)
    events = [mk_event(s) for s in case["events"]]
    fn = case["fn"]
    n = len(events)
    if fn == "merge":
        keys = case["keys"]
        groups = Counter(_gsig(e.data, keys) for e in events)
        # equal values under different keys: the situation in which values alone cannot identify a group
        cross = len({tuple(x[1] for x in g if x[0]) for g in groups}) < len(groups)
        _, _, viols, dom = MON["merge_events_by_keys"].judge((events, keys))
        sig = ("merge", len(keys), min(len(groups), 5), max(groups.values(), default=0) > 1, cross)
        nontriv = n >= 2 and (max(groups.values(), default=0) > 1 or cross)
    elif fn == "chunk":
        key = case["key"]
        runs, prev = [], object()
        for e in events:
            cv = canon(e.data[key])
            if cv == prev:
                runs[-1] += 1
            else:
                runs.append(1)
            prev = cv
        res, _, viols, dom = MON["chunk_events_by_key"].judge((events, key))
        if not viols and dom and res and len(events) % 3 == 0:
            # the same function applied to its own output: the chunks (events that carry a 'subevents' list) are just events
            # with a key, and chunking them must conserve them like any others
            _, _, v2, dom2 = MON["chunk_events_by_key"].judge((res, key))
            viols = [(f"chunks-of-chunks:{k}", d) for k, d in v2]
            ctx.count("chunked_twice")
        contiguous = all(iv(a)[1] == iv(b)[0] for a, b in zip(events, events[1:]))
        sig = ("chunk", tuple(min(r, 3) for r in runs[:5]), contiguous)
        nontriv = any(r >= 2 for r in runs)
    elif fn == "filter":
        key, vals = case["key"], case["vals"]
        _, _, v1, dom = MON["filter_keyvals"].judge((events, key, vals, False))
        inc, _, v2, _ = MON["filter_keyvals"].judge((events, key, vals, True))
        r_inc, _, _, _ = MON["filter_keyvals"].judge((events, key, vals))
        viols = v1 + v2
        nin = len(r_inc or [])
        sig = ("filter", min(nin, 3), min(n - nin, 3), any(key not in e.data for e in events), len(vals) == 0)
        nontriv = 0 < nin < n
    elif fn == "limit":
        _, _, viols, dom = MON["limit_events"].judge((events, case["n"]))
        sig = ("limit", (case["n"] > n) - (case["n"] < n), case["n"] == 0, min(n, 3))
        nontriv = n >= 2
    elif fn == "sort_ts":
        _, _, viols, dom = MON["sort_by_timestamp"].judge((events,))
        srt = all(iv(a)[0] <= iv(b)[0] for a, b in zip(events, events[1:]))
        sig = ("sort_ts", srt, len({iv(e)[0] for e in events}) < n, min(n, 4))
        nontriv = len({iv(e)[0] for e in events}) >= 2
    else:
        _, _, viols, dom = MON["sort_by_duration"].judge((events,))
        srt = all(a.duration >= b.duration for a, b in zip(events, events[1:]))
        sig = ("sort_dur", srt, len({e.duration for e in events}) < n, min(n, 4))
        nontriv = len({e.duration for e in events}) >= 2
    if not dom:
        ctx.count("generator_out_of_domain")
    return viols, dict(sig=sig, nontrivial=nontriv and dom)


def worker(ctx):
    """direct driver + the same monitors under generated query programs (+ the repository's tests, thorough tier)"""
    import sys
    from ..worker import default_worker
    _tx.query_workload(ctx, MON, 400 if ctx.tier == "quick" else 6000, ID)
    if ctx.tier == "thorough" and ctx.widx == 0:
        _tx.pytest_workload(ctx, ID)
    default_worker(sys.modules[__name__], ctx)
