"""C10 — flood closes exactly the short gaps and never loses or overlaps time."""
from datetime import timedelta

from .. import hooks
from ..gen import id_mode, pick_id, big_n, canon, exact, maybe_zone, mk_event, rand_grid, td_us
from ..model import norm, pairwise_disjoint, subset, subtract
from . import _tx
from ._tx import exc_viol, is_event_list, iv, snap, tmod, unmodified

ID = "C10"
LEVEL = "exploration"
ANCHOR_FILES = ["aw_transform/flood.py"]
REQUIRED_COUNTERS = ["monitor.flood"]
RULE = ("non-overlapping event sequences with distinct timestamps on a ms grid, 0-12 events (rarely 120-600), given in any order; in a third of them events end 1-999 µs past the grid; "
        "zero-length events; equal/differing data between neighbours; chains of 3+; gaps at pulsetime-1ms, =pulsetime, whole days / hours / minutes plus a remainder around the pulsetime, "
        "+1ms, 0; pulsetimes 0..10 s; non-trivial = at least one gap with 0 < gap <= pulsetime; signature = set of per-"
        "neighbour-pair classes (same/diff data, gap class, e1 longer/equal/shorter/zero) + length class")
ASSUMPTIONS = ["event STARTS are millisecond aligned (the Event model truncates them); event ENDS may lie between milliseconds - a third of the generated sequences have such ends",
               "domain: pairwise non-overlapping events (closed ends may touch), distinct timestamps, durations >= 0, pulsetime >= 0",
               "zero-length events count as neighbours when gaps are measured"]


def plan(tier):
    return dict(workers=16, cases=100_000 if tier == "quick" else 3_000_000,
                time_s=30 if tier == "quick" else 500)


def _pulse(old, oldkw):
    return old[1] if len(old) > 1 else oldkw.get("pulsetime", 5)


def pre_flood(events, pulsetime=5):
    if not is_event_list(events) or not isinstance(pulsetime, (int, float)) or pulsetime < 0:
        return False
    ivs = sorted(iv(e) for e in events)
    return (all(s <= e for s, e in ivs)
            and all(ivs[i][1] <= ivs[i + 1][0] and ivs[i][0] < ivs[i + 1][0] for i in range(len(ivs) - 1)))


def post_flood(old, oldkw, result, exc, after, afterkw):
    events = old[0]
    pu = td_us(timedelta(seconds=_pulse(old, oldkw)))
    if exc is not None:
        return exc_viol("flood", exc)
    v = []
    ins = sorted(events, key=lambda e: iv(e))
    in_iv = [iv(e) for e in ins]
    out_iv = [iv(r) for r in result]
    if any(e <= s for s, e in out_iv):
        v.append(("flood-nonpositive-output", f"{out_iv[:8]}"))
    if not pairwise_disjoint(out_iv):
        v.append(("flood-output-overlaps", f"in={in_iv[:8]} out={sorted(out_iv)[:8]} pulse_us={pu}"))
    labels = {exact(e.data) for e in events}
    for lab in labels:
        cin = norm(iv(e) for e in events if exact(e.data) == lab)
        cout = norm(iv(r) for r in result if exact(r.data) == lab)
        if not subset(cin, cout):
            v.append(("flood-label-lost-time", f"label={lab} in={cin[:6]} out={cout[:6]} all_in={in_iv[:8]} pulse_us={pu}"))
            break
    if {exact(r.data) for r in result} - labels:
        v.append(("flood-new-label", f"{ {exact(r.data) for r in result} - labels}"))
    short = norm((a[1], b[0]) for a, b in zip(in_iv, in_iv[1:]) if 0 < b[0] - a[1] <= pu)
    new = subtract(out_iv, in_iv)
    if new != short:
        unclosed = subtract(short, new)
        stray = subtract(new, short)
        kind = "flood-short-gap-not-closed" if unclosed and not stray else (
            "flood-covers-outside-short-gaps" if stray and not unclosed else "flood-wrong-fill")
        v.append((kind, f"in={in_iv[:8]} out={sorted(out_iv)[:8]} pulse_us={pu} unclosed={unclosed[:4]} stray={stray[:4]}"))
    v += unmodified("flood", events, after[0])
    return v


MON = {}


def monitors():
    return [(tmod("flood"), "flood", pre_flood, post_flood)]


def setup(ctx):
    import aw_query.functions  # noqa: F401 - its aliases of the transforms must exist before they are patched
    for m, n, pre, post in monitors():
        MON[n] = hooks.Monitor(m, n, pre, post).install()


def teardown(ctx):
    for n, mon in MON.items():
        ctx.count(f"monitor.{n}", mon.evaluations)
        ctx.count(f"out_of_domain.{n}", mon.out_of_domain)
        mon.uninstall()


_DATA = [{"label": "a"}, {"label": "b"}, {"label": "c"}, {}, {"label": "a", "cursor": {"$tuple": [12, 40]}},
         {"label": "a", "cursor": [12, 40]}, {"size": {"wh": {"$tuple": [80, 24]}}, "hist": [{"$tuple": ["a", 1]}]}]


def gen_case(rng, ctx):
    base, unit = rand_grid(rng)
    if unit > 10**6:
        unit = 10**6
    base, unit, zone = maybe_zone(rng, base, unit)
    pulse_ms = rng.choice([0, 1, 2, 1000, 3000, 5000, 5000, 10000, rng.randrange(0, 10001)])
    pu = pulse_ms * 1000
    n = big_n(rng, rng.randrange(0, 13))
    specs = []
    pos = base
    sticky = rng.random() < 0.5
    lab = rng.choice(_DATA)
    idm = id_mode(rng) if rng.random() < 0.5 else "none"      # pieces of one stored event, events of several buckets: ids repeat
    for i in range(n):
        dur = rng.choice([0, 0, 1, 1, 2, 3, 7]) * unit
        if not (sticky and rng.random() < 0.6):
            lab = rng.choice(_DATA)
        specs.append(dict(ts=pos, dur=dur, data=lab, **({"zone": zone} if zone and rng.random() < 0.7 else {})))
        eid = pick_id(rng, idm, i, 100)
        if eid is not None:
            specs[-1]["id"] = eid
        r = rng.random()
        if r < 0.15:
            gap = 0
        elif r < 0.55:
            gap = max(0, pu + rng.choice([0, 0, 1000, -1000, 2000, -2000]))
        elif r < 0.8:
            gap = rng.randrange(0, max(1, pu // 1000) + 1) * 1000
        elif r < 0.96:
            gap = pu + rng.randrange(1, 20) * unit
        else:
            # a long gap that LOOKS short once a component of it is dropped: whole days / hours / minutes plus a remainder
            # around the pulsetime
            gap = rng.choice([86400, 86400, 2 * 86400, 7 * 86400, 3600, 60, 1]) * 10**6 * rng.choice([1, 1, 3]) + max(
                0, rng.choice([0, 1000, pu, pu - 1000, pu + 1000, pu // 2]))
        nxt = pos + dur + gap
        if nxt <= pos:           # distinct timestamps
            nxt = pos + 1000
        pos = nxt
    if rng.random() < 0.3:
        # events that END between milliseconds (durations keep microseconds, timestamps do not)
        for a, b in zip(specs, specs[1:] + [None]):
            room = (b["ts"] - a["ts"] - a["dur"]) if b else 10**6
            if room >= 1000 and rng.random() < 0.6:
                a["dur"] += rng.choice([1, 300, 500, 999, rng.randrange(1, 1000)])
    if rng.random() < 0.5:
        rng.shuffle(specs)
    p = pulse_ms / 1000 if pulse_ms % 1000 or rng.random() < 0.5 else pulse_ms // 1000
    return dict(events=specs, p=p)


def _cls(a, b, data_same, pu):
    gap = b[0] - a[1]
    g = "0" if gap == 0 else ("<" if gap < pu else ("=" if gap == pu else ">"))
    d1, d2 = a[1] - a[0], b[1] - b[0]
    l = "z" if d1 == 0 else ("L" if d1 > d2 else ("E" if d1 == d2 else "S"))
    return ("s" if data_same else "d") + g + l


def run_case(case, ctx):
    if case.get("kind") == "query":
        return _tx.run_query_case(case, ctx, MON)
    events = [mk_event(s) for s in case["events"]]
    p = case["p"]
    pu = td_us(timedelta(seconds=p))
    ins = sorted(events, key=iv)
    pairs = [_cls(iv(a), iv(b), a.data == b.data, pu) for a, b in zip(ins, ins[1:])]
    sig = "|".join(sorted(set(pairs))) + f"#{min(len(pairs), 3)}"
    nontriv = any(0 < iv(b)[0] - iv(a)[1] <= pu for a, b in zip(ins, ins[1:]))
    use_kw = len(case["events"]) % 2 == 0
    if p == 5 and use_kw:
        _, _, viols, dom = MON["flood"].judge((events,))
    else:
        _, _, viols, dom = MON["flood"].judge((events, p))
    if not dom:
        ctx.count("generator_out_of_domain")
    return viols, dict(sig=sig, nontrivial=nontriv and dom)


def worker(ctx):
    """direct driver + the same monitors under generated query programs (+ the repository's tests, thorough tier)"""
    import sys
    from ..worker import default_worker
    _tx.query_workload(ctx, MON, 400 if ctx.tier == "quick" else 6000, ID)
    if ctx.tier == "thorough" and ctx.widx == 0:
        _tx.pytest_workload(ctx, ID)
    default_worker(sys.modules[__name__], ctx)
