"""C12 — queries only read: bucket data is unchanged and scoped to the query window."""
import random

import iso8601

from .. import qlang
from ..backends import BACKENDS, Store
from ..gen import canon, mk_dt, rand_offset
from ._st import dump_store

ID = "C12"
LEVEL = "exploration"
ANCHOR_FILES = ["aw_query/functions.py", "aw_query/query2.py"]
REQUIRED_COUNTERS = ["queries.memory", "queries.sqlite", "queries.peewee", "query_bucket_results_compared",
                     "eventcount_results_compared", "failing_queries"]
RULE = ("generated programs biased towards in-place mutators (categorize, tag, split_url_events, period_union, flood, "
        "chunk_events_by_key, merge_events_by_keys), a third of them made to raise midway (unknown function after a "
        "mutating call, unknown bucket, wrong type), run through aw_query.query against a store of each backend "
        "holding three populated buckets (a few events with negative durations, identical twins and a day-long event among them; minutes of data - for 3 of the 15 workers around the present moment of the run, some events stamped ahead of the clock -, or - 3 of the 15 workers - one bucket of ~2700 events nearly half of which start at the same instant as their neighbour, or - 6 of the 15 workers - most of a year of 6-24 h events, so that windows span weeks and months), with windows of any UTC offset (whole data range, partial, zero-width, "
        "outside all data, sub-second edges, an edge centuries away from the data - years 2 to 9892 -), with an occasional direct write to a bucket between two queries; before/after each query every bucket is dumped (events + metadata) and "
        "compared; every query_bucket / query_bucket_eventcount result recorded at the registry is compared with a "
        "direct windowed read / count of the same bucket over the query's own instants (a read of an existing bucket that raises inside the query must raise directly too); non-trivial = the program "
        "calls a mutator on bucket data or fails; signature = (backend, set of built-ins called, outcome class, "
        "window class)")
ASSUMPTIONS = ["programs never rebind STARTTIME/ENDTIME", "windows are aware datetimes with whole-minute offsets, start <= end"]

_S = {}
MUTATORS = {"categorize", "tag", "split_url_events", "period_union", "flood", "chunk_events_by_key", "merge_events_by_keys",
            "simplify_window_titles", "sort_by_timestamp", "sort_by_duration", "filter_period_intersect", "union_no_overlap"}


def plan(tier):
    return dict(workers=15, cases=24_000 if tier == "quick" else 900_000, time_s=45 if tier == "quick" else 900)


def setup(ctx):
    # workers 0-2: a few minutes of data in 2020; workers 6-8: a few minutes of data around the present moment; workers 3-5, 9-11: most of a year (windows of weeks and months);
    # workers 12-14: one bucket of ~2700 events, nearly half of them starting at the instant of their neighbour
    _ensure(ctx, BACKENDS[ctx.widx % 3], f"c12-data-{ctx.seed}-{ctx.widx}" + ("-big" if ctx.widx >= 12 else "-long" if (ctx.widx // 3) % 2 else "-now" if ctx.widx >= 6 else ""))


def _ensure(ctx, backend, data_key):
    """(Re)build the store a case was generated against (a replay names its own backend and data)."""
    if _S.get("key") == (backend, data_key):
        return
    if "st" in _S:
        _S["st"].close()
    if "reg" not in _S:
        _S["reg"] = qlang.Registry()
        _S["reg"].keep_results_of = {"query_bucket", "query_bucket_eventcount"}
    st = Store(backend, ctx.tmp)
    base = 1_600_000_000_000_000
    if data_key.endswith("-now"):
        # the data lies around the present moment of THIS process (a replay rebuilds it around its own): events of the last
        # minutes and events stamped a little ahead of the clock, windows that contain "now"
        import time
        base = int(time.time()) * 10**6 - 120 * 10**6
    lo, hi = qlang.populate(st.ds, random.Random(data_key), base, long_range=data_key.endswith("-long"), odd_events=True,
                             big=data_key.endswith("-big"))
    dump = dump_store(st.ds)
    ends = sorted({t[1] + t[2] for _, evs in dump.values() for t in evs})
    _S.update(st=st, lo=lo, hi=hi, backend=backend, dump=dump, key=(backend, data_key), ends=ends, base=base)


def teardown(ctx):
    _S["reg"].restore()
    _S["st"].close()


def gen_case(rng, ctx):
    if rng.random() < 0.01:
        # a query that fails INSIDE the store's read (an event whose end lies beyond the last representable instant cannot be
        # handed out), issued while writes are still pending
        return dict(kind="failing-read", backend=_S["backend"], pending=rng.randrange(1, 6), bulk=rng.random() < 0.4,
                    edge=rng.choice(["ends-past-the-last-instant", "re-timed-past-the-last-instant"]), fn=rng.choice(["query_bucket", "query_bucket", "flood"]))
    g = qlang.ProgGen(rng, max_depth=rng.choice([2, 3, 4]), mutating_bias=True)
    prog = g.program()
    fail = None
    if rng.random() < 0.33:
        fail = rng.choice(["unknown-function", "unknown-bucket", "wrong-type", "unknown-variable"])
        bad = {"unknown-function": ["call", "no_such_function", [["var", prog[-1][0]]]],
               "unknown-bucket": ["call", "query_bucket", [["str", "no-such-bucket"]]],
               "wrong-type": ["call", "sort_by_timestamp", [["int", 1]]],
               "unknown-variable": ["var", "never_defined"]}[fail]
        prog = prog + [["RETURN", bad]]
    lo, hi = _S["lo"], _S["hi"]
    span = hi - lo
    r = rng.random()
    if r < 0.3:
        ws, we = lo, hi
        wcls = "all"
    elif r < 0.6:
        a, b_ = sorted([lo + rng.randrange(span), lo + rng.randrange(span)])
        ws, we = a, b_
        wcls = "partial"
    elif r < 0.72:
        ws = we = lo + rng.randrange(span)
        wcls = "zero-width"
    elif r < 0.82:
        ws = hi + rng.randrange(10**6, 10**9)
        we = ws + rng.randrange(0, 10**9)
        wcls = "after-data"
    elif r < 0.87:
        we = lo - rng.randrange(10**6, 10**9)
        ws = we - rng.randrange(0, 10**9)
        wcls = "before-data"
    elif r < 0.9:
        # "everything up to …" / "everything since …": an edge centuries away from the data, anywhere in the calendar
        first, last = -62100000000 * 10**6, 250000000000 * 10**6        # (years 2 … 9892)
        far_past = rng.choice([first + rng.randrange(0, 31 * 10**15), rng.randrange(first, lo)])       # (half of them before the year 1000)
        far_future = rng.randrange(hi, last)
        ws, we = rng.choice([(far_past, hi), (far_past, lo + rng.randrange(span)), (lo, far_future), (far_past, far_future),
                             (far_past, far_past + rng.randrange(0, 10**12)), (far_future, far_future + rng.randrange(0, 10**12))])
        wcls = "edge-centuries-away"
    elif r < 0.95:
        ws = lo + rng.randrange(span)
        we = ws + rng.choice([1, 999, 1000, 1500, 10**6 + 1])
        wcls = "sub-second"
    else:
        # the window starts a few hundred microseconds after an event ended (same millisecond or the next)
        ws = rng.choice(_S["ends"]) + rng.choice([1, 100, 400, 700, 999, 1000, -1, -300])
        we = ws + rng.choice([0, 500, 10**6, span])
        wcls = "start-just-after-an-event-end"
    write = None
    if rng.random() < 0.1:
        # the store changes between two queries: nothing a query layer remembers may survive that
        write = dict(bucket=rng.choice(qlang.BUCKETS), ts=lo + rng.randrange(span) // 1000 * 1000, dur=rng.randrange(0, 30) * 10**6,
                     data={"app": "late", "title": "written between queries", "n": rng.randrange(10**6)})
    return dict(prog=prog, ws=ws, wo=rand_offset(rng), we=we, eo=rand_offset(rng), wcls=wcls, fail=fail, write=write,
                spacing_seed=rng.randrange(2**32), backend=_S["backend"], data_key=_S["key"][1], base=_S["base"])


def _failing_read_case(case, ctx):
    """A store of its own: bucket 'plain' with flushed events and `pending` more that no read has flushed, bucket 'edge' with one
    event that cannot be read back. The query reads 'edge' and fails in the store; 'plain' must hold everything written."""
    import aw_query
    from datetime import datetime, timedelta, timezone
    from aw_core.models import Event
    from ..gen import mk_event
    backend = case["backend"]
    viols = []
    with Store(backend, ctx.tmp) as st:
        ds = st.ds
        plain = ds.create_bucket("plain", type="t", client="c", hostname="h")
        edge = ds.create_bucket("edge", type="t", client="c", hostname="h")
        last = datetime(9999, 12, 31, 23, 59, 59, 999000, tzinfo=timezone.utc)
        if case["edge"] == "ends-past-the-last-instant":
            edge.insert(Event(timestamp=last, duration=timedelta(microseconds=999), data={"edge": 1}))
        else:
            r = edge.insert(Event(timestamp=last - timedelta(days=1), duration=timedelta(seconds=1), data={"edge": 1}))
            edge.replace(r.id, Event(timestamp=last - timedelta(days=1), duration=timedelta(days=2), data={"edge": 2}))
        plain.insert([mk_event(dict(ts=10**15 + i * 10**6, dur=1000, data={"uid": i})) for i in range(3)])
        plain.get(1)                                    # (a read: everything so far is flushed)
        want = {0, 1, 2}
        evs = [mk_event(dict(ts=10**15 + (10 + i) * 10**6, dur=1000, data={"uid": 10 + i})) for i in range(case["pending"])]
        if case["bulk"]:
            plain.insert(evs)
        else:
            for e in evs:
                plain.insert(e)
        want |= {10 + i for i in range(case["pending"])}
        inner = 'query_bucket("edge")'
        text = f"RETURN = {inner};" if case["fn"] == "query_bucket" else f"x = {inner}; RETURN = flood(x);"
        outcome = "value"
        try:
            # (the window ends one millisecond before the last one: Bucket.get rounds its end up to the next millisecond)
            aw_query.query("q", text, last - timedelta(days=3), last - timedelta(milliseconds=1), ds)
        except Exception as ex:  # noqa: BLE001
            outcome = type(ex).__name__
            ctx.count("failing_queries")
            ctx.count("queries_failing_inside_the_stores_read")
        ctx.count(f"queries.{backend}")
        got = sorted(e.data.get("uid") for e in plain.get(-1))
        if got != sorted(want):
            viols.append((f"{backend}:query-changed-bucket-events",
                          f"a query that ended in {outcome} while reading bucket 'edge' left bucket 'plain' with uids {got}, written (and acknowledged) before it: {sorted(want)}"))
    return viols, dict(sig=(backend, "failing-read", outcome != "value", case["edge"]), nontrivial=outcome != "value")


def run_case(case, ctx):
    import aw_query
    if case.get("kind") == "failing-read":
        try:
            return _failing_read_case(case, ctx)
        finally:
            st0 = _S.get("st")
            if st0 is not None and st0.backend == "peewee":
                # peewee's database object is a module global: hand it back to the worker's long-lived store
                st0.storage.db.init(st0.path)
                st0.storage.db.connect(reuse_if_open=True)
    _ensure(ctx, case["backend"], case["data_key"])
    reg, ds, backend = _S["reg"], _S["st"].ds, _S["backend"]
    shift = _S["base"] - case.get("base", _S["base"])      # (a replay of a case whose data lies around "now")
    if shift:
        case = dict(case, ws=case["ws"] + shift, we=case["we"] + shift, base=_S["base"],
                    write=dict(case["write"], ts=case["write"]["ts"] + shift) if case.get("write") else None)
    start, end = mk_dt(case["ws"], case["wo"]), mk_dt(case["we"], case["eo"])
    text = qlang.render_program(case["prog"], qlang.Spacing(random.Random(case["spacing_seed"])))
    if case.get("write"):
        w = case["write"]
        from ..gen import mk_event
        ds[w["bucket"]].insert(mk_event(dict(ts=w["ts"], dur=w["dur"], data=w["data"])))
        _S["dump"] = dump_store(ds)
        ctx.count("writes_between_queries")
    reg.reset()
    before = _S["dump"]
    outcome = "value"
    try:
        aw_query.query("q", text, start, end, ds)
    except Exception as ex:  # noqa: BLE001
        outcome = type(ex).__name__
        ctx.count("failing_queries")
    ctx.count(f"queries.{backend}")
    ctx.count(f"window_class.{case['wcls']}")
    viols = []
    called = {t[0] for t in reg.trace}
    after = dump_store(ds)
    if after != before:
        changed = [b for b in before if before[b] != after.get(b)] + [b for b in after if b not in before]
        b0 = changed[0]
        kind = "query-changed-bucket-metadata" if b0 in after and before.get(b0, (None,))[0] != after[b0][0] else "query-changed-bucket-events"
        viols.append((f"{backend}:{kind}", f"outcome={outcome} bucket={b0} before={before.get(b0, (None, None))[1]!r:.300} "
                                           f"after={after.get(b0, (None, None))[1]!r:.300} :: text={text!r:.300}"))
        _S["dump"] = after
    # scope: what query_bucket returned inside the query = a direct windowed read over the query's instants
    s2, e2 = iso8601.parse_date(start.isoformat()), iso8601.parse_date(end.isoformat())
    for name, args, result in reg.results:
        if not args or not isinstance(args[0], str) or args[0] not in before:
            continue
        if name == "query_bucket":
            direct = ds[args[0]].get(starttime=s2, endtime=e2)
            ctx.count("query_bucket_results_compared")
            if qlang.cv(result) != qlang.cv(direct):
                viols.append((f"{backend}:query_bucket-differs-from-direct-windowed-read",
                              f"bucket={args[0]} window=({case['ws']},{case['we']}) in-query={len(result)} events, direct={len(direct)} "
                              f"events; first difference: {next(((canon(qlang.cv(a)), canon(qlang.cv(b_))) for a, b_ in zip(result, direct) if qlang.cv(a) != qlang.cv(b_)), None)!r:.400}"))
        else:
            direct = ds[args[0]].get_eventcount(starttime=s2, endtime=e2)
            ctx.count("eventcount_results_compared")
            if result != direct:
                viols.append((f"{backend}:query_bucket_eventcount-differs-from-direct-count",
                              f"bucket={args[0]} window=({case['ws']},{case['we']}) in-query={result} direct={direct}"))
    for name, args, ex in reg.raised:
        if not args or not isinstance(args[0], str) or args[0] not in before:
            continue
        # the read of an existing bucket failed inside the query: then the direct read over the same instants fails too
        try:
            direct = ds[args[0]].get(starttime=s2, endtime=e2) if name == "query_bucket" else ds[args[0]].get_eventcount(starttime=s2, endtime=e2)
        except Exception:  # noqa: BLE001
            ctx.count("bucket_reads_failing_in_query_and_directly")
            continue
        viols.append((f"{backend}:{name}-failed-where-the-direct-windowed-read-succeeds",
                      f"bucket={args[0]} window=({start.isoformat()},{end.isoformat()}) in-query: {type(ex).__name__}: {ex!s:.200}; "
                      f"direct: {direct if isinstance(direct, int) else len(direct)} events"))
    mut = called & MUTATORS
    sig = (backend, sorted(called), outcome, case["wcls"])
    return viols, dict(sig=sig, nontrivial=bool(mut and (called & {"query_bucket"})) or outcome != "value",
                       sample=dict(kind="query", backend=backend, text=text, window=[case["ws"], case["we"]], outcome=outcome))
