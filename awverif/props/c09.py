"""C09 — interval intersection and union of event lists are exact."""
from collections import Counter

from .. import hooks
from ..gen import id_mode, pick_id, big_n, canon, exact, maybe_zone, mk_event, rand_grid, rand_intervals, rand_nonoverlapping
from ..model import allen, closed_union, measure
from . import _tx
from ._tx import exc_viol, is_event_list, iv, snap, tmod, unmodified

ID = "C09"
LEVEL = "exploration"
ANCHOR_FILES = ["aw_transform/filter_period_intersect.py"]
REQUIRED_COUNTERS = ["monitor.filter_period_intersect", "monitor.period_union"]
RULE = ("pairs of event lists on a millisecond grid, 0-10 events a side, any order (adjacent, touching, zero-length, "
        "identical, nested, one spanning many, empty); internally non-overlapping lists for the intersection, "
        "arbitrary lists for the union; non-trivial = some event and filter event overlap for a positive time "
        "(intersection) / some pair of inputs overlaps or touches (union); signature = function + set of Allen "
        "relations occurring between the two lists + list-size class")
ASSUMPTIONS = ["events have non-negative durations", "instants are millisecond aligned (Event floors them anyway)"]


def plan(tier):
    return dict(workers=16, cases=120_000 if tier == "quick" else 4_000_000,
                time_s=30 if tier == "quick" else 500)


def internally_disjoint(events):
    ivs = sorted(iv(e) for e in events)
    return all(s <= e for s, e in ivs) and all(ivs[i][1] <= ivs[i + 1][0] for i in range(len(ivs) - 1))


def pre_intersect(events, filterevents):
    return (is_event_list(events) and is_event_list(filterevents)
            and internally_disjoint(events) and internally_disjoint(filterevents))


def post_intersect(old, oldkw, result, exc, after, afterkw):
    events, filt = old[0], old[1]
    if exc is not None:
        return exc_viol("intersect", exc)
    v = []
    want = Counter()
    for e in events:
        es, ee = iv(e)
        for f in filt:
            fs, fe = iv(f)
            s, t = max(es, fs), min(ee, fe)
            if t > s:
                want[(s, t, exact(e.data), e.id)] += 1
    got = Counter()
    for r in result:
        rs, re_ = iv(r)
        if re_ > rs:
            got[(rs, re_, exact(r.data), r.id)] += 1
        elif re_ < rs:
            v.append(("intersect-negative-piece", f"{(rs, re_)}"))
        else:
            ok = any(iv(e)[0] <= rs <= iv(e)[1] and exact(e.data) == exact(r.data) and e.id == r.id for e in events) \
                and any(iv(f)[0] <= rs <= iv(f)[1] for f in filt)
            if not ok:
                v.append(("intersect-stray-zero-piece", f"{rs} not inside an event and a filter event"))
    if got != want:
        missing = list((want - got).elements())[:4]
        extra = list((got - want).elements())[:4]
        kind = "intersect-missing-piece" if missing and not extra else (
            "intersect-extra-piece" if extra and not missing else "intersect-wrong-pieces")
        v.append((kind, f"missing={missing} extra={extra} events={snap(events)[:6]} filter={snap(filt)[:6]}"))
    # total duration = measure of the common time (independent restatement)
    tot = sum(k[1] - k[0] for k in got.elements())
    common = 0
    for e in events:
        for f in filt:
            common += max(0, min(iv(e)[1], iv(f)[1]) - max(iv(e)[0], iv(f)[0]))
    if tot != common and not v:
        v.append(("intersect-duration-not-measure", f"sum={tot} measure={common}"))
    v += unmodified("intersect-events", events, after[0])
    v += unmodified("intersect-filter", filt, after[1])
    return v


def pre_union(events1, events2):
    return (is_event_list(events1) and is_event_list(events2)
            and all(iv(e)[1] >= iv(e)[0] for e in events1 + events2))


def post_union(old, oldkw, result, exc, after, afterkw):
    a, b = old[0], old[1]
    if exc is not None:
        return exc_viol("union", exc)
    v = []
    ivs = [iv(r) for r in result]
    if any(r.data != {} for r in result):
        v.append(("union-data-not-cleared", f"{[canon(r.data) for r in result][:5]}"))
    if any(e < s for s, e in ivs):
        v.append(("union-negative-result", f"{ivs[:6]}"))
    for (s1, e1), (s2, e2) in zip(ivs, ivs[1:]):
        if not e1 < s2:
            v.append(("union-no-positive-gap", f"{(s1, e1)} then {(s2, e2)}"))
            break
    want = closed_union([iv(e) for e in a + b])
    got = closed_union(ivs)
    if got != want:
        v.append(("union-wrong-cover", f"want={want[:8]} got={got[:8]} in1={[iv(e) for e in a][:8]} in2={[iv(e) for e in b][:8]}"))
    elif sum(e - s for s, e in ivs) != measure(iv(e) for e in a + b) and not v:
        v.append(("union-duration-not-measure", f"{ivs[:6]}"))
    return v


MON = {}


def monitors():
    m = tmod("filter_period_intersect")
    return [(m, "filter_period_intersect", pre_intersect, post_intersect), (m, "period_union", pre_union, post_union)]


def setup(ctx):
    import aw_query.functions  # noqa: F401 - its aliases of the transforms must exist before they are patched
    for m, n, pre, post in monitors():
        MON[n] = hooks.Monitor(m, n, pre, post).install()


def teardown(ctx):
    for n, mon in MON.items():
        ctx.count(f"monitor.{n}", mon.evaluations)
        ctx.count(f"out_of_domain.{n}", mon.out_of_domain)
        mon.uninstall()


# data as transforms may be handed it in memory: tuples are not lists there (a {"$tuple": …} marker becomes a tuple)
_DATA = [{}, {"label": "a"}, {"label": "b"}, {"app": "x", "n": [1, {"k": None}]}, {"label": "a", "cursor": {"$tuple": [12, 40]}},
         {"label": "a", "cursor": [12, 40]}, {"size": {"wh": {"$tuple": [80, 24]}}, "hist": [{"$tuple": ["a", 1]}]}]


def _specs(rng, ivs, base, unit, idbase, zone=None):
    out = []
    mode = id_mode(rng)
    for i, (s, e) in enumerate(ivs):
        sp = dict(ts=base + s * unit, dur=(e - s) * unit, data=rng.choice(_DATA))
        if zone and rng.random() < 0.7:
            sp["zone"] = zone
        eid = pick_id(rng, mode, i, idbase)
        if eid is not None:
            sp["id"] = eid
        out.append(sp)
    return out


def gen_case(rng, ctx):
    base, unit = rand_grid(rng)
    base, unit, zone = maybe_zone(rng, base, unit)
    span = rng.choice([6, 10, 16, 30])
    fn = "intersect" if rng.random() < 0.55 else "union"
    na, nb = big_n(rng, rng.randrange(0, 11)), big_n(rng, rng.randrange(0, 11))
    if max(na, nb) > 50:
        span = 3 * max(na, nb)
    if fn == "intersect":
        a = rand_nonoverlapping(rng, na, span)
        b = rand_nonoverlapping(rng, nb, span)
        if rng.random() < 0.15 and a:
            b = list(a)       # identical lists
        if rng.random() < 0.15:
            b = [(0, span)]   # one spanning many
    else:
        a = rand_intervals(rng, na, span)
        b = rand_intervals(rng, nb, span)
    sa, sb = _specs(rng, a, base, unit, 100, zone), _specs(rng, b, base, unit, 200, zone)
    if rng.random() < 0.4:
        rng.shuffle(sa)
        rng.shuffle(sb)
    return dict(fn=fn, a=sa, b=sb)


def _sig(fn, a, b):
    c = sorted({allen(iv(x), iv(y)) for x in a for y in b})
    return fn + ":" + "".join(c) + f"|{min(len(a), 2)}{min(len(b), 2)}"


def run_case(case, ctx):
    if case.get("kind") == "query":
        return _tx.run_query_case(case, ctx, MON)
    a, b = [mk_event(s) for s in case["a"]], [mk_event(s) for s in case["b"]]
    if case["fn"] == "intersect":
        sig = _sig("I", a, b)
        nontriv = any(min(iv(x)[1], iv(y)[1]) > max(iv(x)[0], iv(y)[0]) for x in a for y in b)
        _, _, viols, dom = MON["filter_period_intersect"].judge((a, b))
    else:
        sig = _sig("U", a, b)
        allv = sorted(iv(x) for x in a + b)
        nontriv = any(allv[i][1] >= allv[i + 1][0] for i in range(len(allv) - 1))
        _, _, viols, dom = MON["period_union"].judge((a, b))
    if not dom:
        ctx.count("generator_out_of_domain")
    if dom and not viols and (len(a) + 2 * len(b)) % 3 == 0 and (a or b):
        # the SAME event objects once more, after one of them was shortened through the public setters (a caller that keeps
        # its lists and calls again): whatever a transform may have left behind on an object must not outlive the change
        from datetime import timedelta
        pool = a if a else b
        e = pool[(len(a) * 7 + len(b)) % len(pool)]
        half = e.duration / 2
        e.duration = half - timedelta(microseconds=half.microseconds % 1000)
        if (len(a) + len(b)) % 2 and e.duration > timedelta(0):
            e.timestamp = e.timestamp + timedelta(milliseconds=1)
            e.duration = e.duration - timedelta(milliseconds=1)
        _, _, viols, dom2 = MON["filter_period_intersect" if case["fn"] == "intersect" else "period_union"].judge((a, b))
        ctx.count("second_calls_on_the_same_objects_after_a_change")
        viols = [(k + "(second call on the same objects after one was shortened)", d) for k, d in viols]
    return viols, dict(sig=sig, nontrivial=nontriv and dom)


def worker(ctx):
    """direct driver + the same monitors under generated query programs (+ the repository's tests, thorough tier)"""
    import sys
    from ..worker import default_worker
    _tx.query_workload(ctx, MON, 400 if ctx.tier == "quick" else 6000, ID)
    if ctx.tier == "thorough" and ctx.widx == 0:
        _tx.pytest_workload(ctx, ID)
    default_worker(sys.modules[__name__], ctx)
