"""C06 — after a crash the database holds a prefix of what was done, minus a bounded tail."""
import json
import os
import signal
import sqlite3
import subprocess
import sys
import time

from ..gen import canon, rand_grid
from . import _crash
from ._crash import MARK, HistoryRunner, decode, is_event_write, is_write, remove_db

ID = "C06"
LEVEL = "fault_enumeration"
ANCHOR_FILES = ["aw_datastore/storages/sqlite.py", "aw_datastore/storages/peewee.py"]
REQUIRED_COUNTERS = ["crash_points_observed.sqlite", "crash_points_observed.peewee", "real_crashes", "returns_checked",
                     "collateral_loss_checks"]
LOST_BOUND = 64   # "at most the last few dozen (documented: about 50) buffered event writes"
RULE = ("operation histories (10-400 ops: single inserts, bulk inserts of 1-250 rows, upserts, replace, replace_last, "
        "long runs of deletes, flushing reads, bucket create/update/delete; some write-only runs of > 200 ops) on a "
        "file-backed sqlite (lazy commit; a fifth of the sqlite histories with enable_lazy_commit=False, the auto-committing configuration, where every completed operation must be durable) or peewee store. In-process tier: at EVERY traced SQL statement boundary and "
        "at every operation return a second read-only connection reads the committed state = what a process death "
        "at that instant would leave; it must equal a state reached by a prefix of the elementary writes (the "
        "writer's own view after each completed op, or an intermediate state of a bulk op in an admissible issue "
        "order), never go backwards, equal the current state at the return of bucket-level ops (and of every op on "
        "peewee), and on sqlite miss at most 64 issued event writes. Real-crash tier: child processes run the same "
        "histories and are SIGKILLed at a chosen statement (or _exit / exit without shutdown / killed by the parent "
        "after a random delay / interrupted by a KeyboardInterrupt that surfaces between two statements and lets the interpreter exit the orderly way), some with megabytes of event data still uncommitted; the reopened file must pass SQLite's "
        "integrity check and is judged the same way. evaluations = crash points decided; "
        "non-trivial = a crash point with a non-empty uncommitted tail; signature = (backend, tier, op kind in "
        "progress, statement kind, uncommitted-count bucket)")
ASSUMPTIONS = ["process death only (SIGKILL, _exit, exit without shutdown, uncaught KeyboardInterrupt); power loss / OS crash is not modelled",
               "SQLite's own transaction atomicity is trusted", "an unreadable observer snapshot is inconclusive, not a violation"]


def plan(tier):
    return dict(workers=16, cases=60_000 if tier == "quick" else 2_500_000, time_s=50 if tier == "quick" else 900,
                floor=5_000 if tier == "quick" else 200_000)


# ------------------------------------------------------------------ generator

def gen_history(rng, nops, uid0=0, write_only=False):
    ops = _gen_history(rng, nops, uid0, write_only)
    if rng.random() < 0.3:
        ops = with_other_store(rng, ops, rng.choice([3, 8, 20]))
    return ops


def with_other_store(rng, ops, every):
    """the same history while another lazily-committing store of the process writes, reads or is reopened now and then"""
    out = []
    for i, op in enumerate(ops):
        out.append(op)
        if i % every == every - 1:
            out.append(dict(op="other", what=rng.choice(["insert", "insert", "read", "read", "reopen"])))
    return out


def _gen_history(rng, nops, uid0=0, write_only=False):
    base, unit = rand_grid(rng)
    uid = [uid0]

    def ev():
        uid[0] += 1
        return dict(ts=base + rng.randrange(0, 50) * unit, dur=rng.randrange(0, 5) * unit + rng.choice([0, 1, 999]),
                    data={"uid": uid[0], "v": rng.choice(["a", "b"])})

    bnames = ["b0", "b1", "ünï"]
    ops = [dict(op="create_bucket", b="b0"), dict(op="create_bucket", b="b1", data={"k": [1]}, name="n1")]
    phase, left = "mixed", 0
    for k in range(nops):
        if left <= 0:
            phase = rng.choice(["mixed", "mixed", "deletes", "singles", "bulk"])
            left = rng.choice([10, 25, 25, 60, 150])
            if phase == "deletes":
                ops.append(dict(op="bulk", b="b0", evs=[ev() for _ in range(rng.choice([60, 120, 250]))]))
        left -= 1
        b = rng.choice(bnames[:2]) if rng.random() < 0.9 else bnames[2]
        r = rng.random()
        if phase == "deletes" and r < 0.9:
            ops.append(dict(op="delete", b="b0", pick=rng.randrange(1000)))
            continue
        if phase == "singles" and r < 0.8:
            ops.append(dict(op=rng.choice(["insert", "insert", "replace_last", "replace", "delete", "insert_with_id"]), b=b, ev=ev(),
                            pick=rng.randrange(1000)))
            continue
        if phase == "bulk" and r < 0.5:
            ops.append(dict(op="bulk", b=b, evs=[ev() for _ in range(rng.choice([1, 2, 49, 50, 51, 99, 100, 101, 250]))]))
            continue
        r = rng.random()
        if phase == "deletes" and r > 0.5:
            r = rng.random() * 0.8      # mostly event writes in between, few flushing operations
        if r < 0.3:
            ops.append(dict(op="insert", b=b, ev=ev()))
        elif r < 0.4:
            ops.append(dict(op="bulk", b=b, evs=[ev() for _ in range(rng.choice([1, 2, 3, 10, 60]))]))
        elif r < 0.5:
            ops.append(dict(op="upsert", b=b, items=[dict(ev=ev(), pick=(rng.randrange(1000) if rng.random() < 0.6 else None))
                                                      for _ in range(rng.choice([1, 2, 3, 6]))]))
        elif r < 0.6:
            ops.append(dict(op="replace", b=b, pick=rng.randrange(1000), ev=ev()))
        elif r < 0.7:
            ops.append(dict(op="replace_last", b=b, ev=ev()))
        elif r < 0.8:
            ops.append(dict(op="delete", b=b, pick=rng.randrange(1000)))
        elif r < 0.815:
            ops.append(dict(op="delete_missing", b=b, n=k))
        elif r < 0.83:
            ops.append(dict(op="fail", b=b, ev=ev(), ev2=ev(), what=rng.choice(
                ["create_existing", "create_existing", "delete_missing_bucket", "update_missing_bucket", "upsert_unbindable",
                 "insert_unserializable", "bulk_unserializable"])))
        elif r < 0.89 and not write_only:
            ops.append(dict(op="read", b=b, how=rng.choice(["get", "get1", "count", "byid"])))
        elif r < 0.93:
            ops.append(dict(op="create_bucket", b=b, data={"n": k}))
        elif r < 0.96:
            ops.append(dict(op="update_bucket", b=b, name=f"name-{k}", data={"upd": k}))
        elif r < 0.98:
            ops.append(dict(op="delete_bucket", b=b))
        else:
            ops.append(dict(op="insert", b=b, ev=ev()))
    return ops


STORM_KINDS = ["delete", "replace", "replace_last", "insert", "delete_missing", "upsert1", "upsert3", "singles", "big-bucket"]


def storm(rng, kind, other=None):
    ops = _storm(rng, kind)
    if other:
        ops = with_other_store(rng, ops, other)     # another store of the process commits every `other` operations
    return ops


def _storm(rng, kind):
    """70-200 single-event writes of one kind with nothing in between that could flush: only the count threshold
    (or the age rule) can bound what a crash loses."""
    ops = gen_history(rng, rng.randrange(3, 10))
    n0 = 10**6
    if kind == "big-bucket":
        # bucket-level operations on a bucket with thousands of events (any batching inside them crosses its limits)
        ops.append(dict(op="create_bucket", b="b0"))
        uid = n0
        for _ in range(rng.choice([4, 5, 9, 13])):
            ops.append(dict(op="bulk", b="b0", evs=[dict(ts=10**15 + (uid + i) * 1000, dur=1000, data={"uid": uid + i}) for i in range(250)]))
            uid += 250
        ops.append(dict(op="insert", b="b1", ev=dict(ts=10**15, dur=0, data={"uid": uid + 1})))
        ops.append(dict(op="update_bucket", b="b0", name="big", data={"big": True}))
        ops.append(dict(op="insert", b="b0", ev=dict(ts=10**15, dur=0, data={"uid": uid + 2})))
        ops.append(dict(op="delete_bucket", b="b0"))
        ops.append(dict(op="insert", b="b1", ev=dict(ts=10**15, dur=0, data={"uid": uid + 3})))
        return ops
    ops.append(dict(op="create_bucket", b="b0"))
    ops.append(dict(op="bulk", b="b0", evs=[dict(ts=10**15 + i * 1000, dur=1000, data={"uid": n0 + i}) for i in range(250)]))
    if rng.random() < 0.5:
        # a refused batch just before: whatever it leaves behind in the store object must not disable the flush rules
        ops.append(dict(op="fail", b="b0", what=rng.choice(["upsert_unbindable", "bulk_unserializable", "insert_unserializable"]),
                        ev=dict(ts=10**15, dur=0, data={"uid": 3 * n0}), ev2=dict(ts=10**15, dur=0, data={"uid": 3 * n0 + 1})))
    for i in range(rng.randrange(70, 200)):
        def e(j=0):
            return dict(ts=10**15 + rng.randrange(0, 10**6) * 1000, dur=rng.randrange(0, 5000), data={"uid": 2 * n0 + 10 * i + j})
        k = kind if kind != "singles" else rng.choice(["delete", "replace", "replace_last", "insert", "upsert1"])
        if k == "upsert1":
            ops.append(dict(op="upsert", b="b0", items=[dict(ev=e(), pick=rng.randrange(1000))]))
        elif k == "upsert3":
            ops.append(dict(op="upsert", b="b0", items=[dict(ev=e(j), pick=rng.randrange(1000)) for j in range(3)]))
        else:
            ops.append(dict(op=k, b="b0", pick=rng.randrange(1000), ev=e(), n=i))
    return ops


def gen_case(rng, ctx):
    n_gen = ctx.counters.get("cases_generated", 0)
    ctx.count("cases_generated")
    if n_gen < 2:
        # every run starts with 32 storms (16 workers x 2) that cover each write kind four times on the lazy store
        return dict(kind="inproc", backend="sqlite", ops=storm(rng, STORM_KINDS[(2 * ctx.widx + n_gen) % len(STORM_KINDS)],
                                                               other=20 if n_gen == 1 else None))
    if n_gen == 2 and ctx.widx % 2 == 0:
        # a real crash with megabytes of event data still uncommitted (fewer than 50 buffered writes, but far more than
        # SQLite's page cache holds): whatever has reached the file by then must still be undone by the recovery
        big = "x" * rng.choice([120_000, 200_000])
        n0 = 5 * 10**6
        ops = [dict(op="create_bucket", b="b0"),
               dict(op="bulk", b="b0", evs=[dict(ts=10**15 + i * 1000, dur=1000, data={"uid": n0 + i}) for i in range(200)]),
               dict(op="read", b="b0", how="count")]
        for i in range(rng.randrange(30, 48)):
            k = rng.random()
            if k < 0.6:
                ops.append(dict(op="insert", b="b0", ev=dict(ts=10**15 + i, dur=0, data={"uid": 2 * n0 + i, "payload": big})))
            elif k < 0.8:
                ops.append(dict(op="delete", b="b0", pick=rng.randrange(1000)))
            else:
                ops.append(dict(op="replace", b="b0", pick=rng.randrange(1000), ev=dict(ts=10**15 + i, dur=5, data={"uid": 3 * n0 + i, "payload": big})))
        return dict(kind="real", backend="sqlite" if ctx.widx % 4 == 0 else "peewee", ops=ops, mode=rng.choice(["_exit", "sigkill"]),
                    every=False, k=len(ops) - 1, delay_us=0, big=True)
    if n_gen == 2:
        # (odd workers) an interrupt after EVERY statement of a short history whose multi-statement operations - delete of a
        # populated bucket, a bulk upsert - are thereby cut between any two of their statements
        n0 = 7 * 10**6
        ops = [dict(op="create_bucket", b="b0"), dict(op="create_bucket", b="b1"),
               dict(op="bulk", b="b0", evs=[dict(ts=10**15 + i * 1000, dur=1000, data={"uid": n0 + i}) for i in range(rng.choice([3, 40]))]),
               dict(op="insert", b="b1", ev=dict(ts=10**15, dur=0, data={"uid": n0 + 100})),
               dict(op="read", b="b0", how="count"),
               dict(op="insert", b="b0", ev=dict(ts=10**15 + 5, dur=0, data={"uid": n0 + 101})),
               dict(op="upsert", b="b0", items=[dict(ev=dict(ts=10**15 + 9000 + j, dur=7, data={"uid": n0 + 200 + j}), pick=j) for j in range(3)]),
               dict(op="delete_bucket", b="b0"),
               dict(op="insert", b="b1", ev=dict(ts=10**15 + 1, dur=0, data={"uid": n0 + 102}))]
        return dict(kind="real", backend="sqlite" if ctx.widx % 4 != 3 else "peewee", ops=ops, mode="interrupt", every=True, k=1, delay_us=0)
    backend = "sqlite" if rng.random() < 0.65 else "peewee"
    r = rng.random()
    if r < (0.3 if ctx.tier == "quick" else 0.3):
        # real crashes: short histories, every statement index (thorough) or a sample (quick)
        ops = gen_history(rng, rng.randrange(4, 14))
        return dict(kind="real", backend=backend, ops=ops, eager=(backend == "sqlite" and rng.random() < 0.25), mode=rng.choice(["sigkill", "sigkill", "sigkill", "_exit", "exit", "parentkill", "interrupt", "interrupt"]),
                    every=ctx.tier == "thorough", k=rng.randrange(1, 200), delay_us=rng.randrange(0, 3000))
    if r < 0.4:
        ops = storm(rng, rng.choice(STORM_KINDS), other=rng.choice([None, None, 10, 30]))
    elif r < 0.5:
        ops = gen_history(rng, rng.randrange(200, 400), write_only=True)
    else:
        ops = gen_history(rng, rng.randrange(10, 120))
    case = dict(kind="inproc", backend=backend, ops=ops)
    if backend == "sqlite" and rng.random() < 0.2:
        case["eager"] = True      # SqliteStorage(enable_lazy_commit=False): the auto-committing configuration of that backend
    return case


# ------------------------------------------------------------------ positions (the admissible prefix states)

class Positions:
    """Ordered admissible states: position (j, k) = after k elementary steps of op j; (j, m_j) == (j+1, 0)."""

    def __init__(self):
        self.fp = {}        # state -> sorted list of linear positions
        self.lin = []       # linear index -> (j, k, writes_issued_at_least)
        self.end_of_op = {}  # j -> linear index of its final state

    def add(self, state, j, k, writes):
        idx = len(self.lin)
        self.lin.append((j, k, writes))
        self.fp.setdefault(state, []).append(idx)
        return idx

    def candidates(self, state):
        return self.fp.get(state, [])


def intermediates(prev, final, prev_ids, final_ids, desc, backend, bucket):
    """Admissible intermediate states of one multi-step op, as lists (one per issue order) of states."""
    if desc is None:
        return []
    kind = desc["kind"]
    ev_prev = {(r[1], r[2]): r for r in prev if r[0] == "E"}
    ev_fin = {(r[1], r[2]): r for r in final if r[0] == "E"}
    if kind == "delete_bucket" and backend == "peewee":
        b = desc["bucket"]
        gone = frozenset(r for r in prev if r[0] == "E" and r[1] == b)
        return [[prev - gone]] if gone else []
    if kind not in ("bulk", "upsert"):
        return []
    steps = desc["steps"]
    if len(steps) <= 1:
        return []

    def apply(order):
        cur = set(prev)
        out = []
        for st in order:
            if st[0] == "add":
                r = ev_fin.get((bucket, st[1]))
                if r is not None:
                    cur.add(r)
            else:
                old = ev_prev.get((bucket, st[1]))
                new = ev_fin.get((bucket, st[2]))
                if old is not None:
                    cur.discard(old)
                if new is not None:
                    cur.add(new)
            out.append(frozenset(cur))
        return out[:-1]

    rew = [s for s in steps if s[0] == "rewrite"]
    add = [s for s in steps if s[0] == "add"]
    orders = [rew + add]
    if rew and add:
        orders += [add + rew, list(steps)]
    return [apply(o) for o in orders]


# ------------------------------------------------------------------ reference run (also the in-process tier)

class Observer:
    def __init__(self, path, backend):
        self.conn = sqlite3.connect(f"file:{__import__('urllib.parse').parse.quote(path)}?mode=ro", uri=True, timeout=0.2)
        self.backend = backend
        self.version = None
        self.state = None
        self.reads = 0

    def snapshot(self):
        try:
            v = self.conn.execute(f"PRAGMA {MARK} data_version").fetchone()[0]
            if v != self.version or self.state is None:
                self.state = decode(self.conn, self.backend)[0]
                self.version = v
                self.reads += 1
            return self.state
        except sqlite3.Error:
            self.state = None
            return None

    def close(self):
        self.conn.close()


def reference_run(case, ctx, observe=True):
    """Runs the history in this process. Returns (positions, observations, op_info)."""
    backend = case["backend"]
    path = os.path.join(ctx.tmp, f"c06-{os.getpid()}-{ctx.evaluations}-{int(time.monotonic() * 1e6) % 10**9}.db")
    hr = HistoryRunner(backend, path, ctx.tmp, lazy=not case.get("eager"))
    obs = Observer(path, backend) if observe else None
    pos = Positions()
    collateral = []
    observations = []          # (op index j, writes issued in op j so far, total writes issued, state|None, kind, stmtkind)
    cur = dict(j=-1, w_op=0, w_total=0)
    op_meta = []

    def on_stmt(stmt):
        s = obs.snapshot() if obs else None
        observations.append((cur["j"], cur["w_op"], cur["w_total"], s, "stmt", stmt.lstrip().split(None, 1)[0].upper()))
        if is_event_write(stmt):
            cur["w_op"] += 1
            cur["w_total"] += 1

    hr.on_stmt = on_stmt
    prev, prev_ids = hr.view, dict(hr.ids)
    pos.add(prev, -1, 0, 0)
    try:
        for j, op in enumerate(case["ops"]):
            cur["j"], cur["w_op"] = j, 0
            w0 = cur["w_total"]
            desc = hr.run_op(op)
            final = hr.refresh()
            gone = prev - final
            if gone:
                bad = [r for r in gone if not may_remove(op, desc, r)]
                if bad and not collateral:
                    collateral.append((j, op["op"], op.get("what"), None if desc is None else desc.get("raised"), sorted(bad, key=repr)[:4]))
            chains = intermediates(prev, final, prev_ids, hr.ids, desc, backend, op.get("b"))
            for chain in chains:
                for k, stt in enumerate(chain, start=1):
                    # sqlite issues one statement per row, so k elementary steps need k write statements of this
                    # op; peewee packs up to 100 rows into one statement
                    pos.add(stt, j, k, w0 + (k if backend == "sqlite" else 0))
            end = pos.add(final, j, 10**6, cur["w_total"])
            pos.end_of_op[j] = end
            s = obs.snapshot() if obs else None
            observations.append((j, cur["w_op"], cur["w_total"], s, "ret", op["op"]))
            op_meta.append(dict(kind=op["op"], executed=desc is not None, w_end=cur["w_total"]))
            prev, prev_ids = final, dict(hr.ids)
    finally:
        if obs:
            ctx.count("observer_full_reads", obs.reads)
            obs.close()
        hr.close(remove=True)
    op_meta.append(dict(collateral=collateral))
    return pos, observations, op_meta


def may_remove(op, desc, row):
    """May this operation make `row` disappear from the writer's view? (rows are ('B', id, …) / ('E', bucket, uid, …))"""
    kind = op["op"]
    b = op.get("b")
    if desc is None or kind in ("insert", "bulk", "read", "delete_missing", "create_bucket", "fail", "other"):
        return False
    if kind == "update_bucket":
        return row[0] == "B" and row[1] == b
    if kind == "delete_bucket":
        return row[1] == b
    if kind in ("replace", "delete", "insert_with_id"):
        return row[0] == "E" and row[1] == b and row[2] in desc.get("targets", [])
    if kind == "upsert":
        return row[0] == "E" and row[1] == b and row[2] in [s[1] for s in desc.get("steps", []) if s[0] == "rewrite"]
    if kind == "replace_last":
        return row[0] == "E" and row[1] == b
    return False


BUCKET_OPS = ("create_bucket", "update_bucket", "delete_bucket")


def judge(case, pos, observations, op_meta, ctx, tier_label):
    """Applies the prefix / monotonic / durability rules to a list of observations."""
    backend = case["backend"]
    viols = []
    last_lin = 0
    coll = op_meta[-1].get("collateral") if op_meta and "collateral" in op_meta[-1] else None
    if coll:
        j, opk, what_, raised, rows = coll[0]
        viols.append((f"{backend}:acknowledged-writes-discarded-by-another-operation",
                      f"{backend} {tier_label} op#{j} {opk}{'/' + what_ if what_ else ''} (raised: {raised}) made rows vanish from the "
                      f"writer's own view that it does not address: {rows!r:.500}"))
        return viols
    ctx.count("collateral_loss_checks", max(0, len(op_meta) - 1))
    for (j, w_op, w_total, state, kind, what) in observations:
        if state is None:
            ctx.inconclusive += 1
            continue
        cands = pos.candidates(state)
        # a state can only reflect what has been issued: nothing of later ops, and of the op in progress
        # no more event writes than were issued so far
        ok = [c for c in cands if pos.lin[c][0] <= j and pos.lin[c][2] <= w_total]
        where = f"{backend} {tier_label} op#{j} {case['ops'][j]['op'] if j >= 0 else 'open'} at {kind}:{what} (writes issued in op: {w_op})"
        if not ok:
            kindv = "committed-state-is-not-a-prefix"
            if cands:
                kindv = "committed-state-reflects-writes-not-yet-issued"
            viols.append((f"{backend}:{kindv}", f"{where}: committed rows={len(state)}; nearest known states: "
                                               f"{[pos.lin[c][:2] for c in cands][:3]}"))
            break
        nxt = [c for c in ok if c >= last_lin]
        if not nxt:
            viols.append((f"{backend}:committed-state-went-backwards", f"{where}: was at {pos.lin[last_lin][:2]}, now {pos.lin[max(ok)][:2]}"))
            break
        last_lin = min(nxt)
        best = max(ok)
        lost = w_total - pos.lin[best][2]
        ctx.count(f"crash_points_observed.{backend}")
        sig = (backend, tier_label, case["ops"][j]["op"] if j >= 0 else "-", what if kind == "stmt" else "ret",
               0 if lost <= 0 else (1 if lost <= 10 else (2 if lost <= 50 else 3)))
        ctx.sigs.add(canon(list(sig)))
        if lost > 0:
            ctx.count("crash_points_with_uncommitted_tail")
        if kind == "ret":
            ctx.count("returns_checked")
            opk = case["ops"][j]["op"]
            executed = op_meta[j].get("executed", True) if j < len(op_meta) else True
            if (opk in BUCKET_OPS and executed) or backend == "peewee" or case.get("eager"):
                if best != pos.end_of_op[j]:
                    what_ = "bucket-level operation" if opk in BUCKET_OPS else "completed operation"
                    viols.append((f"{backend}:{what_.replace(' ', '-')}-not-durable-on-return",
                                  f"{where}: committed state is at {pos.lin[best][:2]}"))
                    break
            if backend == "sqlite" and lost > LOST_BOUND:
                viols.append((f"{backend}:more-than-{LOST_BOUND}-event-writes-uncommitted-on-return",
                              f"{where}: {lost} issued event writes are not in the committed state "
                              f"(committed state is at {pos.lin[best][:2]})"))
                break
    return viols


# ------------------------------------------------------------------ real crashes

def run_child(case, mode, k, delay_us, ctx):
    """Runs the history in a child that dies; returns (journal entries, db path)."""
    path = os.path.join(ctx.tmp, f"c06-real-{os.getpid()}-{int(time.monotonic() * 1e6) % 10**9}.db")
    jpath = path + ".journal.txt"
    args = dict(backend=case["backend"], ops=case["ops"], path=path, journal=jpath, mode=mode, k=k, eager=bool(case.get("eager")))
    apath = path + ".args.json"          # histories can carry megabytes of payload: too long for an argument list
    with open(apath, "w") as f:
        json.dump(args, f)
    p = subprocess.Popen([sys.executable, "-m", "awverif.crash_child", "@" + apath],
                         stdout=subprocess.DEVNULL, stderr=subprocess.PIPE)
    if mode == "parentkill":
        # wait until the child has started executing the history, then kill after a random delay
        t0 = time.monotonic()
        while time.monotonic() - t0 < 20 and not (os.path.exists(jpath) and os.path.getsize(jpath) > 0):
            time.sleep(0.0005)
        time.sleep(delay_us / 1e6)
        p.send_signal(signal.SIGKILL)
    try:
        _, err = p.communicate(timeout=60)
    except subprocess.TimeoutExpired:
        p.kill()
        p.communicate()
        return None, path, jpath, "child timed out"
    entries = []
    try:
        with open(jpath) as f:
            entries = [ln.split() for ln in f.read().splitlines() if ln.strip()]
    except FileNotFoundError:
        pass
    note = ""
    if mode == "interrupt" and p.returncode in (-2, 1, 130) and b"KeyboardInterrupt" in err:
        pass        # died of the interrupt, as intended
    elif p.returncode not in (0, -9) or (mode in ("sigkill",) and p.returncode == 0 and not any(e[0] == "done" for e in entries)):
        note = f"child exit={p.returncode} stderr={err.decode(errors='replace')[-400:]}"
    return entries, path, jpath, note


def judge_real(case, pos, op_meta, entries, path, ctx, mode):
    """Position reached by the dead child (from its journal) and the state of the reopened file."""
    backend = case["backend"]
    j_open, w_op, w_total, last_ret = -1, 0, 0, -1
    for e in entries:
        if e[0] == "c":
            j_open, w_op = int(e[1]), 0
        elif e[0] == "w":
            w_op += 1
            w_total += 1
        elif e[0] == "r":
            last_ret = int(e[1])
    open_op = j_open if j_open > last_ret else None
    viols = []
    where = f"{backend} real-crash mode={mode} after op#{last_ret} returned" + (f", op#{open_op} {case['ops'][open_op]['op']} open with {w_op} writes issued" if open_op is not None else "")
    # 1. raw reopen (runs SQLite's own recovery)
    try:
        conn = sqlite3.connect(path, timeout=2)
        state = decode(conn, backend)[0]
        integrity = [r[0] for r in conn.execute(f"PRAGMA {MARK} integrity_check")]
        conn.close()
    except sqlite3.Error as ex:
        return [(f"{backend}:database-unreadable-after-crash", f"{where}: {ex}")]
    ctx.count("integrity_checks_after_crash")
    if integrity != ["ok"]:
        return [(f"{backend}:database-corrupt-after-crash", f"{where}: integrity_check says {integrity[:3]}")]
    # 2. reopen through the store's own constructor
    try:
        hr = HistoryRunner(backend, path, ctx.tmp)
        state2 = hr.view
        api_ok = True
        try:
            for b in hr.ds.buckets():
                hr.ds[b].get(-1)
        except Exception as ex:  # noqa: BLE001
            api_ok = False
            viols.append((f"{backend}:store-unusable-after-crash", f"{where}: {type(ex).__name__}: {ex}"))
        hr.close(remove=False)
        if api_ok and state2 != state:
            viols.append((f"{backend}:reopened-store-differs-from-file", f"{where}"))
    except Exception as ex:  # noqa: BLE001
        viols.append((f"{backend}:store-constructor-failed-after-crash", f"{where}: {type(ex).__name__}: {ex}"))
    cands = pos.candidates(state)
    jmax = open_op if open_op is not None else last_ret
    ok = [c for c in cands if pos.lin[c][0] <= jmax and pos.lin[c][2] <= w_total]
    if not ok:
        kindv = "recovered-state-is-not-a-prefix" if not cands else "recovered-state-reflects-writes-not-yet-issued"
        viols.append((f"{backend}:{kindv}", f"{where}: recovered rows={len(state)} known positions={[pos.lin[c][:2] for c in cands][:3]}"))
        return viols
    best = max(ok)
    # durability relative to the last completed op
    w_ret = op_meta[last_ret]["w_end"] if last_ret >= 0 else 0
    lost = w_ret - pos.lin[best][2]
    if last_ret >= 0:
        need = None
        for jj in range(last_ret, -1, -1):
            if backend == "peewee" or case.get("eager") or (case["ops"][jj]["op"] in BUCKET_OPS and op_meta[jj]["executed"]):
                need = jj
                break
        if need is not None and best < pos.end_of_op[need]:
            viols.append((f"{backend}:completed-operation-lost-in-crash", f"{where}: op#{need} {case['ops'][need]['op']} had returned; recovered state is at {pos.lin[best][:2]}"))
        if backend == "sqlite" and lost > LOST_BOUND:
            viols.append((f"{backend}:more-than-{LOST_BOUND}-event-writes-lost-in-crash", f"{where}: {lost} writes of completed ops missing"))
    ctx.count(f"crash_points_observed.{backend}")
    ctx.count("real_crashes")
    if lost > 0:
        ctx.count("crash_points_with_uncommitted_tail")
    ctx.sigs.add(canon([backend, f"real-{mode}", case["ops"][jmax]["op"] if jmax >= 0 else "-", "open" if open_op is not None else "ret",
                        0 if lost <= 0 else (1 if lost <= 10 else (2 if lost <= 50 else 3))]))
    return viols


def run_case(case, ctx):
    backend = case["backend"]
    if case["kind"] == "inproc":
        pos, observations, op_meta = reference_run(case, ctx, observe=True)
        viols = judge(case, pos, observations, op_meta, ctx, "observer")
        n = len(observations)
        nt = sum(1 for o in observations if o[3] is not None)
        return viols, dict(sig=None, nontrivial=True, weight=n, nontrivial_weight=nt,
                           sample=dict(kind="inproc", backend=backend, n_ops=len(case["ops"]), first_ops=case["ops"][:6]))
    # real crashes
    pos, observations, op_meta = reference_run(case, ctx, observe=False)
    nstmt = sum(1 for o in observations if o[4] == "stmt")
    mode = case["mode"]
    if case.get("big"):
        ks = [nstmt] if mode == "sigkill" else [len(case["ops"]) - 1]
    elif mode in ("sigkill", "interrupt"):
        ks = list(range(1, nstmt + 1)) if case["every"] else sorted({1 + (case["k"] * (i + 1) * 7919) % max(1, nstmt) for i in range(3)})
    elif mode in ("_exit", "exit"):
        nops = len(case["ops"])
        ks = list(range(0, nops)) if case["every"] else sorted({(case["k"] * (i + 1)) % nops for i in range(2)})
    else:
        ks = [0] * (6 if case["every"] else 2)
    viols = []
    done = 0
    for i, k in enumerate(ks):
        entries, path, jpath, note = run_child(case, mode, k, case["delay_us"] * (i + 1) % 3000, ctx)
        try:
            if entries is None or note:
                ctx.inconclusive += 1
                ctx.count("child_failures")
                if note and len(ctx.harness_errors) < 1 and "Traceback" in note:
                    ctx.harness_errors.append("crash child failed: " + note)
                continue
            viols += judge_real(case, pos, op_meta, entries, path, ctx, mode)
            done += 1
        finally:
            remove_db(path)
            for extra in (jpath, path + ".args.json"):
                try:
                    os.unlink(extra)
                except FileNotFoundError:
                    pass
        if viols:
            break
    return viols, dict(sig=None, nontrivial=True, weight=max(1, done), nontrivial_weight=done,
                       sample=dict(kind="real", backend=backend, mode=mode, crash_points=ks[:8], n_ops=len(case["ops"]),
                                   first_ops=case["ops"][:4]))
