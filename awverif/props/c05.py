"""C05 — bucket lifecycle: create, list, describe, update, delete behave as a keyed map."""
import copy

import iso8601

from ..backends import BACKENDS, Store
from ..gen import batch_edge, canon, dt_us, mk_dt, mk_event, rand_data, rand_instant, rand_offset
from ._st import dump_store, raw_uids, raw_view

ID = "C05"
LEVEL = "exploration"
ANCHOR_FILES = ["aw_datastore/datastore.py", "aw_datastore/storages/memory.py", "aw_datastore/storages/sqlite.py",
                "aw_datastore/storages/peewee.py"]
REQUIRED_COUNTERS = ["steps.memory", "steps.sqlite", "steps.peewee", "missing_bucket_probes", "recreate_checks", "quiet_state_checks"]
RULE = ("histories of 10-40 steps over a pool of 4-6 bucket ids (ASCII, unicode, spaces, quotes, %): create "
        "(with/without name, data, explicit creation instant), update (random non-empty subset of fields; a third of the updates re-send the current values or data that differs from the stored data only as 1 / true / 1.0), delete, "
        "re-create, lookup, metadata through fresh and stale handles, listing, event writes, and the same operations "
        "against ids that do not exist; after every step the listing's key set, every live bucket's metadata and "
        "event count are compared with a dict model - through API reads, or (half of the cases, 'quiet') through the writer "
        "connection's own uncommitted view with one API comparison at the end, because an API read of events commits "
        "on the lazy store and would hide lost pending writes; evaluations = steps; non-trivial = history contains "
        "delete-then-re-create of an id that held events, or an operation on a missing id; signature = (backend, op "
        "kind, target state: live/missing/recreated/had-events, fields supplied)")
ASSUMPTIONS = ["creating an id that already exists is outside the statement and never generated",
               "updates supply non-empty values only (the statement fixes nothing about empty ones and the backends differ)",
               "when no creation instant is given the first observed value is taken and must then stay stable"]

IDS = ["b1", "aw-watcher-window_host", "ünï-日本", "with space", 'q"uote', "per%cent_x", "semi;colon'apos", "B1"]


def plan(tier):
    return dict(workers=16, cases=48_000 if tier == "quick" else 1_500_000, time_s=45 if tier == "quick" else 900)


def _meta_vals(rng):
    return rng.choice(["t", "currentwindow", "ünï", "a b", 'q"', "x%y", "'"])


def gen_case(rng, ctx):
    n_gen = ctx.counters.get("cases_generated", 0)
    ctx.count("cases_generated")
    if n_gen == 1 and ctx.widx % 2 == 0:
        # once per run and worker: a bucket with many thousands of events (counts around likely batch sizes) is deleted and
        # its id - and a brand-new id - created again; whatever deletes in batches must not leave anything behind
        backend = "peewee" if ctx.widx % 4 == 0 else "sqlite"
        n = batch_edge(rng, 22000) if rng.random() < 0.7 else rng.choice([10001, 12500, 20001])
        n = max(n, 9000)
        evs = [dict(ts=10**15 + i * 1000, dur=1000, data={"uid": 10**6 + i}) for i in range(n)]
        steps = [dict(op="create", b=0, type="t", client="c", hostname="h"),
                 dict(op="write", b=0, evs=[dict(ts=10**15, dur=0, data={"uid": 1})], stale=False),
                 dict(op="create", b=1, type="t", client="c", hostname="h"),
                 dict(op="write", b=1, evs=evs, stale=False),
                 dict(op="metadata", b=1, stale=False),
                 dict(op="delete", b=1),
                 dict(op="create", b=1, type="t2", client="c2", hostname="h2"),
                 dict(op="listing", b=1),
                 dict(op="create", b=2, type="t3", client="c3", hostname="h3"),
                 dict(op="metadata", b=2, stale=False)]
        return dict(backend=backend, pool=["keep", "big", "brand-new"], steps=steps, quiet=False, big=n)
    backend = BACKENDS[rng.randrange(3)]
    pool = rng.sample(IDS, rng.randrange(4, 7))
    steps = []
    uid = 0
    for _ in range(rng.randrange(10, 41)):
        r = rng.random()
        bid = rng.randrange(len(pool))
        if r < 0.2:
            st = dict(op="create", b=bid, type=_meta_vals(rng), client=_meta_vals(rng), hostname=_meta_vals(rng))
            if rng.random() < 0.6:
                st["name"] = _meta_vals(rng)
            if rng.random() < 0.6:
                st["data"] = rand_data(rng, 3)
            if rng.random() < 0.5:
                st["created"] = [rand_instant(rng), rand_offset(rng)]
        elif r < 0.38:
            fields = {}
            for f in rng.sample(["type_id", "client", "hostname", "name", "data"], rng.randrange(1, 6)):
                fields[f] = {"k": rand_data(rng, 2), "n": 1} if f == "data" else _meta_vals(rng)
            if rng.random() < 0.06:
                fields = {}          # an update that supplies no field at all: refused or accepted, it changes nothing
            st = dict(op="update", b=bid, fields=fields)
            if fields and rng.random() < 0.35:
                # an update that looks like no change: the current values re-sent, or data that is equal to the stored
                # data as Python objects but not as JSON (1 / true / 1.0, at any depth) - alone or next to a real change
                st["like"] = rng.choice(["same", "retype", "retype"])
                if rng.random() < 0.5:
                    st["fields"] = {k: v for k, v in fields.items() if k != "data"}
                else:
                    st["fields"] = {}
        elif r < 0.52:
            st = dict(op="delete", b=bid)
        elif r < 0.7:
            evs = []
            for _ in range(rng.randrange(1, 4)):
                uid += 1
                evs.append(dict(ts=rand_instant(rng), dur=rng.randrange(0, 10**7), data={"uid": uid}))
            st = dict(op="write", b=bid, evs=evs, stale=rng.random() < 0.4)
        elif r < 0.8:
            st = dict(op="lookup", b=bid)
        elif r < 0.9:
            st = dict(op="metadata", b=bid, stale=rng.random() < 0.5)
        else:
            st = dict(op="listing", b=bid)
        if backend != "memory" and rng.random() < 0.05:
            # the process ends (everything flushed) and another one opens the same file: buckets it finds there are buckets
            # like any other - listed, described, updated, deleted - although this Datastore object never handed out a handle
            st["reopen_before"] = True
        steps.append(st)
        if rng.random() < 0.12:     # the delete / re-create cycle around an id that holds events
            uid += 1
            steps += [dict(op="create", b=bid, type="t", client="c", hostname="h"),
                      dict(op="write", b=bid, evs=[dict(ts=rand_instant(rng), dur=0, data={"uid": uid})], stale=False),
                      dict(op="delete", b=bid),
                      dict(op="create", b=rng.choice([bid, rng.randrange(len(pool))]), type="t2", client="c2", hostname="h2"),
                      dict(op="metadata", b=bid, stale=True)]
    return dict(backend=backend, pool=pool, steps=steps, quiet=rng.random() < 0.5)


def _retype(x, changed=None):
    """the same value as far as Python's == goes, another one as JSON: true <-> 1 <-> 1.0, at any depth"""
    top = changed is None
    changed = [False] if top else changed
    if isinstance(x, bool):
        changed[0] = True
        out = int(x)
    elif isinstance(x, int) and abs(x) < 2**53:
        changed[0] = True
        out = float(x)
    elif isinstance(x, float) and x in (0.0, 1.0):
        changed[0] = True
        out = bool(x)
    elif isinstance(x, float) and x.is_integer() and abs(x) < 2**53:
        changed[0] = True
        out = int(x)
    elif isinstance(x, dict):
        out = {k: _retype(v, changed) for k, v in x.items()}
    elif isinstance(x, list):
        out = [_retype(v, changed) for v in x]
    else:
        out = x
    if top and not changed[0] and isinstance(out, dict):
        out = dict(out, flag=1)
    return out


def _scribble(x):
    """The caller goes on using a dict it passed in (or was handed): every level gets an edit. The store must not follow."""
    if isinstance(x, dict):
        for v in list(x.values()):
            _scribble(v)
        x["edited by the caller afterwards"] = 1
    elif isinstance(x, list):
        for v in x:
            _scribble(v)
        x.append("edited by the caller afterwards")


def _check_state(ds, model, events, viols, where):
    try:
        listing = ds.buckets()
    except Exception as ex:  # noqa: BLE001
        viols.append(("listing-raised", f"{where}: {type(ex).__name__}: {ex}"))
        return
    if set(listing) != set(model):
        viols.append(("listing-keys-differ", f"{where} model={sorted(model)} got={sorted(listing)}"))
        return
    for bid, want in model.items():
        for src, md in (("listing", listing[bid]), ("metadata", ds[bid].metadata())):
            for f in ("id", "type", "client", "hostname"):
                if md.get(f) != want[f]:
                    viols.append((f"metadata-{f}-differs", f"{where} bucket={bid!r} via {src}: want={want[f]!r} got={md.get(f)!r}"))
            if want.get("name") is not None and md.get("name") != want["name"]:
                viols.append(("metadata-name-differs", f"{where} bucket={bid!r} via {src}: want={want['name']!r} got={md.get('name')!r}"))
            if canon(md.get("data")) != canon(want["data"]):
                viols.append(("metadata-data-differs", f"{where} bucket={bid!r} via {src}: want={canon(want['data'])[:200]} got={canon(md.get('data'))[:200]}"))
            created_text = md.get("created")
            _scribble(md)       # a description that was handed out is the caller's: the next one must not show these edits
            try:
                created = dt_us(iso8601.parse_date(created_text))
            except Exception as ex:  # noqa: BLE001
                viols.append(("metadata-created-unparsable", f"{where} bucket={bid!r}: {created_text!r} ({ex})"))
                continue
            if want["created"] is None:
                want["created"] = created
            elif created != want["created"]:
                viols.append(("metadata-created-differs", f"{where} bucket={bid!r} via {src}: want={want['created']} got={created}"))
        b = ds[bid]
        n = b.get_eventcount()
        top = b.get(1)      # the read every heartbeat starts with: a new or re-created bucket has no newest event
        if (not events[bid] and top) or (events[bid] and (len(top) != 1 or top[0].data.get("uid") not in events[bid])):
            viols.append(("limit-1-read-differs", f"{where} bucket={bid!r} model_uids={sorted(events[bid])} "
                                                  f"got={[e.data.get('uid') for e in top]}"))
        got_uids = sorted(e.data.get("uid") for e in b.get(-1))
        if got_uids != sorted(events[bid]) or n != len(events[bid]):
            viols.append(("bucket-events-differ", f"{where} bucket={bid!r} model_uids={sorted(events[bid])} got_uids={got_uids} count={n}"))


def _check_quiet(st, model, events, viols, where):
    """The same comparison through the writer connection's own view (no API read of events: that would commit)."""
    rows, _ = raw_view(st)
    got = raw_uids(rows)
    if set(got) != set(model):
        viols.append(("listing-keys-differ", f"{where} (writer view) model={sorted(model)} got={sorted(got)}"))
        return
    meta = {r[1]: r for r in rows if r[0] == "B"}
    for bid, want in model.items():
        r = meta[bid]
        for f, v in (("type", r[3]), ("client", r[4]), ("hostname", r[5])):
            if v != want[f]:
                viols.append((f"metadata-{f}-differs", f"{where} (writer view) bucket={bid!r}: want={want[f]!r} got={v!r}"))
        if want.get("name") is not None and r[2] != want["name"]:
            viols.append(("metadata-name-differs", f"{where} (writer view) bucket={bid!r}: want={want['name']!r} got={r[2]!r}"))
        if sorted(got[bid]) != sorted(events[bid]):
            viols.append(("bucket-events-differ", f"{where} (writer view) bucket={bid!r} model_uids={sorted(events[bid])} got_uids={sorted(got[bid])}"))


def run_case(case, ctx):
    backend = case["backend"]
    viols = []
    nontriv = 0
    pool = case["pool"]
    with Store(backend, ctx.tmp) as st:
        ds = st.ds
        quiet = bool(case.get("quiet")) and backend != "memory"
        model, events, handles = {}, {}, {}
        had_events = set()
        executed = 0
        for k, s in enumerate(case["steps"]):
            bid = pool[s["b"]]
            op = s["op"]
            where = f"{backend} step#{k} {op}({bid!r})"
            if s.get("reopen_before") and backend != "memory":
                for b_ in list(model):
                    ds[b_].get(1)                      # (reads: nothing is left pending when the connection goes away)
                st.close(remove=False)
                st2 = Store(backend, ctx.tmp, path=st.path)
                st.ds, st.storage = st2.ds, st2.storage
                ds = st.ds
                handles.clear()
                ctx.count("stores_reopened_mid_history")
            live = bid in model
            state = "live" if live else "missing"
            before = None
            if not live:
                before = raw_view(st)[0] if quiet else dump_store(ds)
            try:
                if op == "create":
                    if live:
                        continue
                    kw = dict(type=s["type"], client=s["client"], hostname=s["hostname"])
                    if "name" in s:
                        kw["name"] = s["name"]
                    data = None
                    if "data" in s:
                        data = copy.deepcopy(s["data"])
                        kw["data"] = data
                    created = None
                    if "created" in s:
                        kw["created"] = mk_dt(*s["created"])
                        created = s["created"][0]
                    h = ds.create_bucket(bid, **kw)
                    _scribble(data)
                    handles.setdefault(bid, h)
                    model[bid] = dict(id=bid, type=s["type"], client=s["client"], hostname=s["hostname"],
                                      name=s.get("name"), data=s.get("data") or {}, created=created)
                    events[bid] = []
                    if bid in had_events:
                        state = "recreated-after-events"
                        nontriv += 1
                        ctx.count("recreate_checks")
                    before = None
                elif op == "update":
                    f = s["fields"]
                    if live and s.get("like"):
                        cur = model[bid]
                        f = dict(f)
                        if s["like"] == "same":
                            f.update({("type_id" if k == "type" else k): copy.deepcopy(cur[k]) for k in ("type", "client", "hostname")})
                            f["data"] = copy.deepcopy(cur["data"]) or {"flag": 1}
                        else:
                            f["data"] = _retype(copy.deepcopy(cur["data"]) or {"flag": 1})
                        ctx.count(f"updates_that_look_like_no_change.{s['like']}")
                    if live and not f:
                        try:
                            ds.update_bucket(bid)
                        except ValueError:
                            ctx.count("updates_without_any_field.refused")
                        ctx.count("updates_without_any_field")
                    elif live:
                        passed = copy.deepcopy(f)
                        ds.update_bucket(bid, **passed)
                        _scribble(passed.get("data"))
                        ctx.count("arguments_edited_by_the_caller_after_the_call")
                        m = model[bid]
                        for key, val in f.items():
                            m["type" if key == "type_id" else key] = val
                    else:
                        ctx.count("missing_bucket_probes")
                        nontriv += 1
                        try:
                            ds.update_bucket(bid, **copy.deepcopy(f))
                            viols.append(("update-of-missing-bucket-did-not-raise", where))
                        except ValueError:
                            pass
                elif op == "delete":
                    if live:
                        ds.delete_bucket(bid)
                        if events[bid]:
                            had_events.add(bid)
                        del model[bid]
                        del events[bid]
                    else:
                        ctx.count("missing_bucket_probes")
                        nontriv += 1
                        try:
                            ds.delete_bucket(bid)
                            viols.append(("delete-of-missing-bucket-did-not-raise", where))
                        except ValueError:
                            pass
                elif op == "write":
                    if not live and bid in handles and s.get("stale"):
                        # an event operation through the handle of a bucket that has been deleted since: whatever it
                        # answers or raises, the bucket map must stay as it is (checked below: store unchanged, listing
                        # and every description equal to the model)
                        ctx.count("missing_bucket_probes")
                        ctx.count("event_operations_through_a_handle_of_a_deleted_bucket")
                        nontriv += 1
                        state = "stale-handle"
                        h = handles[bid]
                        for attempt in (lambda: h.insert(mk_event(s["evs"][0])), lambda: h.get(1), lambda: h.get_eventcount()):
                            try:
                                attempt()
                            except Exception:  # noqa: BLE001 - the refusal may take any form
                                pass
                    elif not live:
                        continue
                    else:
                        b = handles[bid] if (s["stale"] and bid in handles) else ds[bid]
                        evs = [mk_event(e) for e in s["evs"]]
                        if len(evs) == 1:
                            b.insert(evs[0])
                        else:
                            b.insert(evs)
                        events[bid] += [e["data"]["uid"] for e in s["evs"]]
                elif op == "lookup":
                    if live:
                        h = ds[bid]
                        if h.bucket_id != bid:
                            viols.append(("lookup-returned-other-bucket", where))
                    else:
                        ctx.count("missing_bucket_probes")
                        nontriv += 1
                        try:
                            ds[bid]
                            viols.append(("lookup-of-missing-bucket-did-not-raise", where))
                        except KeyError:
                            pass
                elif op == "metadata":
                    if s["stale"] and bid in handles:
                        h = handles[bid]
                    elif live:
                        h = ds[bid]
                    else:
                        continue
                    if live:
                        h.metadata()     # compared in _check_state
                    else:
                        ctx.count("missing_bucket_probes")
                        nontriv += 1
                        state = "stale-handle"
                        try:
                            h.metadata()
                            viols.append(("metadata-of-missing-bucket-did-not-raise", where))
                        except ValueError:
                            pass
                elif op == "listing":
                    ds.buckets()
            except Exception as ex:  # noqa: BLE001
                viols.append((f"{op}-raised-unexpectedly", f"{where} state={state}: {type(ex).__name__}: {ex}"))
                break
            ctx.count(f"steps.{backend}")
            executed += 1
            if before is not None and not live:
                after = raw_view(st)[0] if quiet else dump_store(ds)
                if after != before:
                    diff = sorted(set(before) ^ set(after), key=repr)[:4] if quiet else (before, after)
                    viols.append(("failed-operation-changed-the-store", f"{where}{' (writer view)' if quiet else ''}: {diff!r:.500}"))
            if quiet:
                _check_quiet(st, model, events, viols, where)
                ctx.count("quiet_state_checks")
            else:
                _check_state(ds, model, events, viols, where)
            ctx.sigs.add(canon([backend, op, state, sorted(s.get("fields", {})) if op == "update" else
                                [x for x in ("name", "data", "created") if x in s]]))
            if viols:
                break
        if quiet and not viols:
            _check_state(ds, model, events, viols, f"{backend} at the end of a quiet history")
    viols = [(f"{backend}:{k}", d) for k, d in viols]
    return viols, dict(sig=None, nontrivial=nontriv > 0, weight=max(1, executed), nontrivial_weight=nontriv)
