"""C01 — stored events come back exactly as inserted, and the store owns its copy."""
import copy
import math

from ..backends import BACKENDS, Store
from ..gen import (DAY_US, batch_edge, canon, dt_us, floor_ms, mk_event, rand_data, rand_duration, rand_event_spec, rand_instant,
                   rand_json, rand_offset, td_us)
from ._st import dump_bucket, meta_canon, obs, wreck_dict, wreck_event

ID = "C01"
LEVEL = "exploration"
ANCHOR_FILES = ["aw_datastore/storages/memory.py", "aw_datastore/storages/sqlite.py", "aw_datastore/storages/peewee.py"]
REQUIRED_COUNTERS = ["events_read_back.memory", "events_read_back.sqlite", "events_read_back.peewee", "aliasing_probes",
                     "delete_then_insert_probes"]
RULE = ("per case one store (memory / sqlite file / peewee file), one bucket created with a data dict, 1-12 generated "
        "events (instants 1970..2100 at any UTC offset, durations 0..30 d at µs granularity, nested JSON data) "
        "inserted singly or in bulk (bulk sizes straddling 50/100/101/250 in some cases), read back by listing and by "
        "id and through seven further read shapes (limit 1 / 2 / huge, lower / upper / both bounds, a second Bucket wrapper), then every caller-side object (events passed in, returned, handed out by any of these reads; metadata dicts; the create/update "
        "data dict) is mutated and everything is read again; then replace / replace_last / bulk upsert with the same "
        "mutate-afterwards probe; then one event that is not the newest is deleted and three more are inserted (single + "
        "bulk) and ids / lookups re-checked; in half of the cases six equal-looking events (same instant and duration, data equal or "
        "differing only as 1 / 1.0 / true) are stored, one of the later ones is deleted by id and every other event is re-read; 'sweep' cases push thousands of instants through one bulk insert - half of them on a connection given the per-statement limits of a stock SQLite build (999 bound variables, 500 compound terms); non-trivial = "
        "sub-millisecond duration part or non-UTC offset or nested/unicode data; signature = (backend, bulk?, decade, "
        "binary exponent of the start µs, duration class, data-shape class)")
ASSUMPTIONS = ["the contract compared against is the millisecond floor of the given instant (Event's own normalisation)",
               "equal JSON data = equal canonical JSON text"]


def plan(tier):
    # evaluations are counted per event written and read back
    return dict(workers=16, cases=250_000 if tier == "quick" else 8_000_000, time_s=40 if tier == "quick" else 900)


def gen_case(rng, ctx):
    backend = BACKENDS[(ctx.evaluations + ctx.widx + rng.randrange(3)) % 3]
    if rng.random() < (0.04 if ctx.tier == "quick" else 0.08):
        n = rng.choice([99, 100, 101, 250, 51, 1000 if ctx.tier == "quick" else 5000])
        if rng.random() < 0.5:
            n = batch_edge(rng, 1100 if ctx.tier == "quick" else 11000)
        evs = []
        for i in range(n):
            s = rand_event_spec(rng, depth=1)
            evs.append(dict(ts=s["ts"], off=s["off"], dur=s["dur"], data={"uid": i}))
        return dict(kind="sweep", backend=backend, events=evs)
    n = rng.randrange(1, 13)
    evs = []
    for i in range(n):
        s = rand_event_spec(rng, depth=rng.choice([1, 2, 3, 4]))
        s["data"]["uid"] = i
        evs.append(s)
    return dict(kind="alias", backend=backend, bulk=rng.random() < 0.4, events=evs,
                bucket_data=rand_data(rng, 3), update_data={"k": rand_json(rng, 2), "l": [1, {"m": 2}]},
                repl=[rand_event_spec(rng, 3) for _ in range(3)], del_pick=rng.randrange(100),
                repeat=rng.choice([0, 0, 2, 3, 5]), twins=rng.choice([None, None, "single", "bulk"]))


def _want(spec):
    return (floor_ms(spec["ts"]), spec["dur"], canon(spec["data"]))


def _cmp(label, want, got_obs, viols):
    if got_obs[1:] != want:
        kind = f"{label}-timestamp-differs" if got_obs[1] != want[0] else (
            f"{label}-duration-differs" if got_obs[2] != want[1] else f"{label}-data-differs")
        viols.append((kind, f"want={want!r:.300} got={got_obs[1:]!r:.300}"))
        return False
    return True


def _snapshot(ds, b):
    lst = dump_bucket(b)
    byid = {}
    for t in lst:
        e = b.get_by_id(t[0])
        byid[t[0]] = obs(e) if e is not None else None
    return dict(listing=lst, byid=byid, meta=meta_canon(b.metadata()),
                buckets=canon({k: meta_canon(v) for k, v in ds.buckets().items()}))


def _read_shapes(ds, b, specs):
    """Events handed out by the other shapes of read a caller has: limited, newest-only, bounded on either or both
    sides, through a second Bucket wrapper."""
    from ..gen import mk_dt as us_dt
    out = []
    lo = min(floor_ms(s["ts"]) for s in specs)
    hi = max(s["ts"] + s["dur"] for s in specs) + 1000
    b2 = ds["b"]
    for kw in (dict(limit=1), dict(limit=2), dict(limit=1, starttime=us_dt(lo)), dict(limit=-1, starttime=us_dt(lo)),
               dict(limit=-1, endtime=us_dt(hi)), dict(limit=3, starttime=us_dt(lo), endtime=us_dt(hi)),
               dict(limit=10**6)):
        out.extend(b2.get(**kw))
    out.extend(b.get(1))
    return out


def _sig(backend, bulk, spec):
    ts = floor_ms(spec["ts"])
    exp = math.frexp(float(max(ts, 1)))[1]
    d = spec["dur"]
    dcls = "0" if d == 0 else ("sub-ms" if d % 1000 else ("ms" if d < 10**6 else ("s" if d < DAY_US else "days")))
    data = spec["data"]
    shape = "nested" if any(isinstance(v, (dict, list)) for v in data.values()) else "flat"
    if any(ord(c) > 127 for c in canon(data)):
        shape += "+unicode"
    return (backend, bulk, 1970 + ts // (315576 * 10**9), exp, dcls, shape, spec.get("off", 0) != 0)


def run_case(case, ctx):
    backend = case["backend"]
    viols = []
    sigs = []
    with Store(backend, ctx.tmp) as st:
        ds = st.ds
        if case["kind"] == "sweep":
            if len(case["events"]) % 2 and st.tighten_limits():
                ctx.count("sweeps_under_the_statement_limits_of_a_stock_sqlite")
            b = ds.create_bucket("sweep", type="t", client="c", hostname="h")
            evs = [mk_event(s) for s in case["events"]]
            b.insert(evs)
            got = {}
            for e in b.get(-1):
                got.setdefault(e.data.get("uid"), []).append(obs(e))
            ids = set()
            for s in case["events"]:
                g = got.get(s["data"]["uid"], [])
                if len(g) != 1:
                    viols.append(("sweep-event-missing-or-duplicated", f"uid={s['data']['uid']} found={len(g)}"))
                    continue
                ok = _cmp("sweep", _want(s), g[0], viols)
                ids.add(g[0][0])
                if ok and ctx.rng.random() < 0.05:
                    e = b.get_by_id(g[0][0])
                    if e is None or obs(e) != g[0]:
                        viols.append(("sweep-lookup-differs-from-listing", f"{g[0]!r:.200} vs {None if e is None else obs(e)!r:.200}"))
                if len(viols) > 5:
                    break
            if len(ids) != len(case["events"]) and not viols:
                viols.append(("ids-not-unique", f"{len(ids)} ids for {len(case['events'])} events"))
            n = len(case["events"])
            ctx.count(f"events_read_back.{backend}", n)
            s0 = case["events"][0]
            return viols, dict(sig=_sig(backend, "sweep", s0), nontrivial=True, weight=n,
                               sample=dict(kind="sweep", backend=backend, n=n, first=case["events"][:2]))

        # ---------------------------------------------------------------- aliasing + fidelity
        bdata = copy.deepcopy(case["bucket_data"])
        b = ds.create_bucket("b", type="t", client="c", hostname="h", name="nm", data=bdata)
        specs = case["events"]
        passed = [mk_event(s) for s in specs]
        returned = []
        if case["bulk"]:
            r = b.insert(passed)
            if r is not None:
                returned.append(r)
        else:
            for ev in passed:
                r = b.insert(ev)
                if r is None or r.id is None:
                    viols.append(("insert-returned-no-id", repr(r)[:200]))
                else:
                    returned.append(r)
        listing = b.get(-1)
        by_uid = {}
        for e in listing:
            by_uid.setdefault(e.data.get("uid"), []).append(e)
        ids = []
        handed_out = list(listing)
        for i, s in enumerate(specs):
            g = by_uid.get(i, [])
            if len(g) != 1:
                viols.append(("event-missing-or-duplicated", f"uid={i} found={len(g)} backend={backend}"))
                continue
            o = obs(g[0])
            _cmp("listing", _want(s), o, viols)
            if o[0] is None:
                viols.append(("listed-event-without-id", f"uid={i}"))
                continue
            ids.append(o[0])
            if not case["bulk"] and i < len(returned) and returned[i].id != o[0]:
                viols.append(("returned-id-differs-from-stored-id", f"uid={i} returned={returned[i].id} stored={o[0]}"))
            e2 = b.get_by_id(o[0])
            if e2 is None:
                viols.append(("lookup-by-id-found-nothing", f"id={o[0]}"))
            else:
                _cmp("lookup", _want(s), obs(e2), viols)
                handed_out.append(e2)
            sigs.append(_sig(backend, case["bulk"], s))
        if specs:
            handed_out.extend(_read_shapes(ds, b, specs))
            ctx.count("read_shapes_probed_for_aliasing", 8)
        if len(set(ids)) != len(ids):
            viols.append(("ids-not-unique", f"{ids}"))
        ctx.count(f"events_read_back.{backend}", len(specs))

        def storm(extra=()):
            md = b.metadata()
            bs = ds.buckets()
            for ev in list(passed) + list(returned) + list(handed_out) + list(extra):
                wreck_event(ev)
            wreck_dict(md)
            for v in bs.values():
                wreck_dict(v)
            bs.clear()
            wreck_dict(bdata)
            ctx.count("aliasing_probes")

        before = _snapshot(ds, b)
        storm()
        after = _snapshot(ds, b)
        for part in ("listing", "byid", "meta", "buckets"):
            if before[part] != after[part]:
                viols.append((f"caller-mutation-changed-stored-{part}",
                              f"backend={backend} before={before[part]!r:.300} after={after[part]!r:.300}"))
        # ------------------------------------------------------------ rewrites, same probe
        if ids and not viols:
            r0, r1, r2 = (mk_event(s) for s in case["repl"])
            b.replace(ids[0], r0)
            b.replace_last(r1)
            up = mk_event(case["repl"][2])
            up.id = ids[-1]
            # one bulk call that rewrites an event AND inserts new ones, the rewrite listed first: every new event is stored
            # with its OWN instant, duration and data
            mixed = [dict(case["repl"][0], data=dict(case["repl"][0]["data"], uid=4000)),
                     dict(case["repl"][1], data=dict(case["repl"][1]["data"], uid=4001, extra=[1, {"k": "v"}]))]
            b.insert([up] + [mk_event(m) for m in mixed] if case.get("del_pick", 0) % 2 else [mk_event(mixed[0]), up, mk_event(mixed[1])])
            rows = {}
            for t in dump_bucket(b):
                rows.setdefault(__import__("json").loads(t[3]).get("uid"), []).append(t)
            for m in mixed:
                g = rows.get(m["data"]["uid"], [])
                if len(g) != 1:
                    viols.append(("event-of-a-mixed-bulk-call-missing-or-duplicated", f"backend={backend} uid={m['data']['uid']} found={len(g)}"))
                else:
                    _cmp("mixed-bulk", _want(m), g[0], viols)
            ctx.count("mixed_bulk_calls_checked")
            upd = copy.deepcopy(case["update_data"])
            ds.update_bucket("b", data=upd)
            handed_out = b.get(-1) + [x for x in (b.get_by_id(i) for i in ids) if x is not None]
            handed_out.extend(_read_shapes(ds, b, specs + case["repl"]))
            before = _snapshot(ds, b)
            # the rewritten rows hold the new values exactly
            cur = {t[0]: t for t in before["listing"]}
            gone = [i for i in ids if i not in cur]
            if gone:
                # (rewrites and a metadata update remove nothing: every id handed out above is still listed)
                viols.append(("events-no-longer-listed-after-rewrites-and-a-metadata-update", f"backend={backend} ids={ids} missing={gone}"))
            if ids[-1] in cur:
                _cmp("upsert", _want(case["repl"][2]), cur[ids[-1]], viols)
            if len(ids) > 1 and ids[0] in cur and ids[0] != ids[-1]:
                w0 = _want(case["repl"][0])
                if cur[ids[0]][1:] != w0 and cur[ids[0]][1:] != _want(case["repl"][1]):
                    viols.append(("replace-not-stored-exactly", f"want={w0!r:.200} got={cur[ids[0]][1:]!r:.200}"))
            if canon(b.metadata().get("data")) != canon(case["update_data"]):
                viols.append(("update-bucket-data-not-stored", f"want={canon(case['update_data'])[:200]} got={canon(b.metadata().get('data'))[:200]}"))
            wreck_dict(upd)
            storm(extra=[r0, r1, up])
            after = _snapshot(ds, b)
            for part in ("listing", "byid", "meta", "buckets"):
                if before[part] != after[part]:
                    viols.append((f"caller-mutation-after-rewrite-changed-stored-{part}",
                                  f"backend={backend} before={before[part]!r:.300} after={after[part]!r:.300}"))
        # ------------------------------------------------------------ the same object several times in one bulk insert
        if not viols and case.get("repeat", 0) > 1:
            spec = dict(case["repl"][0], data=dict(case["repl"][0]["data"], uid=2000))
            one = mk_event(spec)
            other = mk_event(dict(case["repl"][1], data=dict(case["repl"][1]["data"], uid=2001)))
            batch = [one] * case["repeat"]
            batch.insert(1, other)
            b.insert(batch)
            twins = [t for t in dump_bucket(b) if __import__("json").loads(t[3]).get("uid") == 2000]
            if len(twins) != case["repeat"]:
                viols.append(("repeated-object-in-bulk-insert-lost-or-multiplied", f"backend={backend} inserted {case['repeat']}x, found {len(twins)}"))
            elif len({t[0] for t in twins}) != len(twins):
                viols.append(("ids-not-unique", f"backend={backend} the same event object inserted {case['repeat']}x in one list got ids {[t[0] for t in twins]}"))
            else:
                for t in twins:
                    _cmp("repeated-object", _want(spec), t, viols)
                # they are independent stored events: rewriting one leaves the others alone
                b.replace(twins[0][0], mk_event(dict(case["repl"][2], data={"uid": 2002})))
                left = [t for t in dump_bucket(b) if __import__("json").loads(t[3]).get("uid") == 2000]
                if len(left) != case["repeat"] - 1:
                    viols.append(("repeated-object-copies-are-one-stored-event", f"backend={backend} after replacing one of "
                                  f"{case['repeat']} copies {len(left)} are left unchanged"))
            ctx.count("repeated_object_probes")
        # ------------------------------------------------------------ equal-looking events are still separate events
        if not viols and case.get("twins"):
            base = case["repl"][1]
            variants = [{"uid": 3000, "count": 1}, {"uid": 3000, "count": 1}, {"uid": 3000, "count": 1.0},
                        {"uid": 3000, "count": True}, {"uid": 3000, "count": [0, False]}, {"uid": 3000, "count": [0.0, 0]}]
            tspecs = [dict(base, data=v) for v in variants]
            tids = []
            if case["twins"] == "bulk":
                b.insert([mk_event(s) for s in tspecs])
                rows = sorted(t for t in dump_bucket(b) if __import__("json").loads(t[3]).get("uid") == 3000)
                tids = [t[0] for t in rows]
            else:
                for s in tspecs:
                    r = b.insert(mk_event(s))
                    tids.append(r.id if r is not None else None)
            stored = {t[0]: t for t in dump_bucket(b)}
            if len(set(tids)) != len(tspecs) or any(i not in stored for i in tids):
                viols.append(("equal-looking-events-lost-or-share-an-id", f"backend={backend} ids={tids}"))
            else:
                if case["twins"] != "bulk":
                    for i, s in zip(tids, tspecs):
                        _cmp("equal-looking", _want(s), stored[i], viols)
                victim = tids[1 + case.get("del_pick", 0) % (len(tids) - 1)]        # one of the later-inserted ones
                b.delete(victim)
                left = {t[0]: t for t in dump_bucket(b)}
                if victim in left or b.get_by_id(victim) is not None:
                    viols.append(("deleted-event-still-returned", f"backend={backend} id={victim} among equal-looking events {tids}"))
                for i, t in stored.items():
                    if i == victim:
                        continue
                    e2 = b.get_by_id(i)
                    if left.get(i) != t or e2 is None or obs(e2) != t:
                        viols.append(("deleting-one-event-changed-another", f"backend={backend} deleted id={victim}; id={i} stored={t!r:.200} "
                                      f"listing={left.get(i)!r:.200} lookup={None if e2 is None else obs(e2)!r:.200}"))
                        break
            ctx.count("equal_looking_event_probes")
        # ------------------------------------------------------------ ids stay unique across deletions
        if len(ids) >= 2 and not viols:
            victim = ids[case.get("del_pick", 0) % (len(ids) - 1)]      # never the highest id: that one is C02's case
            live = {t[0]: t for t in dump_bucket(b)}
            b.delete(victim)
            live.pop(victim, None)
            fresh_specs = [dict(s, data=dict(s["data"], uid=1000 + i)) for i, s in enumerate(case["repl"])]
            r = b.insert(mk_event(fresh_specs[0]))
            b.insert([mk_event(s) for s in fresh_specs[1:]])
            after = dump_bucket(b)
            all_ids = [t[0] for t in after]
            if len(set(all_ids)) != len(all_ids):
                viols.append(("ids-not-unique-after-delete-and-insert", f"backend={backend} ids={sorted(all_ids)} deleted={victim}"))
            if r is not None and r.id in live:
                viols.append(("fresh-insert-got-live-id", f"backend={backend} id={r.id} live={sorted(live)}"))
            by_uid = {}
            for t in after:
                by_uid.setdefault(__import__("json").loads(t[3]).get("uid"), []).append(t)
            for s in fresh_specs:
                g = by_uid.get(s["data"]["uid"], [])
                if len(g) != 1:
                    viols.append(("event-missing-or-duplicated-after-delete", f"backend={backend} uid={s['data']['uid']} found={len(g)}"))
                    continue
                _cmp("listing-after-delete", _want(s), g[0], viols)
                e2 = b.get_by_id(g[0][0])
                if e2 is None or obs(e2) != g[0]:
                    viols.append(("lookup-by-id-returns-another-event", f"backend={backend} id={g[0][0]} listing={g[0]!r:.200} "
                                                                        f"lookup={None if e2 is None else obs(e2)!r:.200}"))
            for i, t in live.items():
                e2 = b.get_by_id(i)
                if e2 is None or obs(e2) != t:
                    viols.append(("older-event-unreachable-by-its-id", f"backend={backend} id={i} stored={t!r:.200} "
                                                                       f"lookup={None if e2 is None else obs(e2)!r:.200}"))
                    break
            ctx.count("delete_then_insert_probes")
        # ------------------------------------------------------------ a second Datastore object on the same file
        if backend == "sqlite" and not viols and specs and case.get("del_pick", 0) % 3 == 0:
            # (an importer or a command-line tool next to the server) it deletes and re-creates the bucket; what the first
            # Datastore then inserts is stored, listed and found by id like any other event
            b.get(1)                                        # a read: nothing of the first handle is left pending
            other = Store(backend, ctx.tmp, path=st.path)
            try:
                other.ds.delete_bucket("b")
                ob = other.ds.create_bucket("b", type="t", client="c", hostname="h")
                ob.insert(mk_event(dict(specs[0], data={"uid": 5000})))
                ob.get(1)
                late = [dict(s, data=dict(s["data"], uid=6000 + i)) for i, s in enumerate(specs[:3])]
                r = b.insert(mk_event(late[0]))
                if late[1:]:
                    b.insert([mk_event(s) for s in late[1:]])
                for h, hb in (("first", b), ("second", other.ds["b"])):
                    rows = {__import__("json").loads(t[3]).get("uid"): t for t in dump_bucket(hb)}
                    for s in late:
                        t = rows.get(s["data"]["uid"])
                        if t is None:
                            viols.append(("event-inserted-after-another-datastore-recreated-the-bucket-is-not-listed",
                                          f"backend={backend} through the {h} Datastore: uid={s['data']['uid']} listed uids={sorted(rows)}"))
                            break
                        _cmp("listing-after-recreate-by-another-datastore", _want(s), t, viols)
                        e2 = hb.get_by_id(t[0])
                        if e2 is None or obs(e2) != t:
                            viols.append(("lookup-by-id-after-recreate-by-another-datastore", f"backend={backend} id={t[0]} lookup={None if e2 is None else obs(e2)!r:.200}"))
                if r is not None and r.id is not None and not viols and b.get_by_id(r.id) is None:
                    viols.append(("returned-id-finds-nothing", f"backend={backend} id={r.id}"))
                ctx.count("second_datastore_on_the_same_file_probes")
            finally:
                other.close(remove=False)
    nontriv = any(s[4] == "sub-ms" or s[6] or s[5] != "flat" for s in sigs)
    n = max(1, len(specs))
    sig = sigs[0] if sigs else (backend, "empty")
    for s in sigs[1:]:
        ctx.sigs.add(canon(list(s)))
    return viols, dict(sig=list(sig), nontrivial=nontriv, weight=n)
