"""C13 — events normalise to UTC milliseconds and survive JSON round trips."""
import json
from datetime import timedelta, timezone

from ..gen import (DAY_US, canon, dt_us, floor_ms, mk_dt, rand_data, rand_duration, rand_instant, rand_offset, rand_zone_instant, td_us,
                   zones_available)

ID = "C13"
LEVEL = "exploration"
ANCHOR_FILES = ["aw_core/models.py", "aw_core/schema.py"]
REQUIRED_COUNTERS = ["events_constructed", "schema_validations", "floor_values_checked"]
RULE = ("(a) sweep: every microsecond value 0..999999 on base instants/offsets, as aware datetime and as ISO string; "
        "(b) random instants 1970..2100 × UTC offsets in [-14h,+14h] × representations {aware datetime (fixed offset, or an IANA zone with DST rules near a transition, fold 0/1), isoformat(), "
        "'Z' suffix, space separator, 1/2/3/4/5/6/9-digit fraction, ',' fraction, no fraction, basic format, +HHMM and +HH offsets} × durations (8 % of them negative) {timedelta, int, "
        "float k/1e6} × generated JSON data × ids {None, int, str}; non-trivial = non-zero sub-millisecond part or "
        "non-UTC offset or float duration; signature = (representation, offset sign, µs class, duration kind, id kind)")
ASSUMPTIONS = ["'1970..2100' is read as the local calendar date: early 1970-01-01 east of UTC (a negative unix time) is in the domain",
               "iso8601 and jsonschema (+ rfc3339 format checkers) are trusted libraries",
               "float durations are generated as k/10**6 so that 'to the microsecond' is exactly decidable"]

_SCHEMA = []
_CHECKER = []
_SCHEMA_TEXT = []
_N = [0]


def plan(tier):
    # evaluations are counted per judged input: each sweep case carries 5 000 instants
    return dict(workers=16, cases=(3_000_000 + 100_000) if tier == "quick" else (16_000_000 + 2_000_000),
                time_s=50 if tier == "quick" else 600, extra=dict(sweeps=3 if tier == "quick" else 16))


def setup(ctx):
    import jsonschema
    from aw_core.schema import get_json_schema
    _SCHEMA.append(get_json_schema("event"))
    _SCHEMA_TEXT.append(canon(_SCHEMA[0]))
    fc = jsonschema.FormatChecker()
    if "date-time" not in fc.checkers:
        raise RuntimeError("no date-time format checker available: schema validation would be vacuous")
    _CHECKER.append(fc)


def _iso(dt, rep):
    """ISO-8601 text of an aware datetime in the given representation."""
    off = dt.utcoffset()
    sign = "+" if off >= timedelta(0) else "-"
    m = abs(off) // timedelta(minutes=1)
    body = dt.strftime("%Y-%m-%dT%H:%M:%S")
    if rep in ("iso6", "isoformat"):
        if rep == "isoformat":
            return dt.isoformat()
        body += ".%06d" % dt.microsecond
    elif rep == "iso3":
        body += ".%03d" % (dt.microsecond // 1000)
    elif rep == "space6":
        body = body.replace("T", " ") + ".%06d" % dt.microsecond
    elif rep in ("frac1", "frac2", "frac4", "frac5", "frac9"):
        n = int(rep[4:])
        digits = ("%06d" % dt.microsecond + "789")[:n]
        body += "." + digits
    elif rep == "comma3":
        body += ",%03d" % (dt.microsecond // 1000)
    elif rep == "basic":
        return dt.astimezone(timezone.utc).strftime("%Y%m%dT%H%M%SZ")
    elif rep == "hh":
        if m % 60 == 0:
            return body + ".%06d" % dt.microsecond + "%s%02d" % (sign, m // 60)
        body += ".%06d" % dt.microsecond
    elif rep == "nofrac":
        pass
    elif rep == "hhmm6":
        return body + ".%06d" % dt.microsecond + "%s%02d%02d" % (sign, m // 60, m % 60)
    elif rep == "z6":
        return (dt.astimezone(timezone.utc)).strftime("%Y-%m-%dT%H:%M:%S") + ".%06dZ" % dt.microsecond
    elif rep == "z0":
        return (dt.astimezone(timezone.utc)).strftime("%Y-%m-%dT%H:%M:%SZ")
    return body + "%s%02d:%02d" % (sign, m // 60, m % 60)


def _expected_us(us, rep):
    """The instant the representation denotes (some representations drop digits by construction)."""
    if rep in ("iso3", "comma3"):
        return floor_ms(us)
    if rep in ("nofrac", "z0", "basic"):
        return us - us % 10**6
    if rep in ("frac1", "frac2", "frac4", "frac5"):
        q = 10 ** (6 - int(rep[4:]))
        return us - us % q
    return us


REPS = ["dt", "isoformat", "iso6", "iso3", "space6", "nofrac", "hhmm6", "z6", "z0", "frac1", "frac2", "frac4", "frac5", "frac9",
        "comma3", "basic", "hh"]


def _check_event_ts(e, want_us, label):
    ts = e.timestamp
    v = []
    if ts.tzinfo is None or ts.utcoffset() != timedelta(0) or ts.tzinfo.utcoffset(None) != timedelta(0):
        # "a UTC-aware datetime": the zone itself is UTC, not a DST zone that merely sits at +00:00 at that instant
        v.append((f"{label}-not-utc-aware", f"tzinfo={ts.tzinfo!r}"))
    elif dt_us(ts) != floor_ms(want_us):
        v.append((f"{label}-not-ms-floor", f"given_us={want_us} want={floor_ms(want_us)} got={dt_us(ts)}"))
    return v


def gen_case(rng, ctx):
    nsweep = ctx.extra.get("sweeps", 2) * 200   # sweep cases of 5 000 values in total, spread over the workers
    per_worker = -(-nsweep // ctx.nworkers)
    k = ctx.counters.get("sweep_cases", 0)
    if k < per_worker:
        ctx.count("sweep_cases")
        idx = ctx.widx * per_worker + k
        block = idx % 200
        which = idx // 200
        # the third sweep sits before the unix epoch: 1970-01-01 in a zone east of UTC is a negative instant
        base = [0, 2**31 * 10**6, -3600 * 10**6, 946684799 * 10**6, 4102444799 * 10**6][which % 5] if which < 5 else \
            rand_instant(rng) // 10**6 * 10**6
        off = [0, 330, 840, -840, 840][which % 5] if which < 5 else rand_offset(rng)
        return dict(kind="sweep", base=base, off=off, lo=block * 5000, hi=(block + 1) * 5000,
                    rep="dt" if which % 2 == 0 else "iso6")
    us = rand_instant(rng)
    off = rand_offset(rng)
    if rng.random() < 0.08:
        # early 1970-01-01 local time east of UTC: the instant lies before the epoch
        us = -rng.randrange(1, 14 * 3600 * 10**6)
        off = min(840, -(us // (60 * 10**6)) + rng.randrange(0, 30))
    zone = None
    if rng.random() < 0.15 and zones_available():
        # an aware datetime in a zone with DST rules, typically within hours of a transition (repeated / skipped hour)
        us, zone = rand_zone_instant(rng)
    durk = rng.choice(["td", "td", "int", "float"])
    dur = rand_duration(rng)
    if durk == "int":
        dur = dur // 10**6 * 10**6
    if rng.random() < 0.08:
        dur = -dur        # a negative duration is a legal Event (clocks get adjusted between heartbeats)
    return dict(kind="one", us=us, off=off, zone=zone, rep="dt" if (zone and rng.random() < 0.7) else rng.choice(REPS), durk=durk, dur=dur,
                data=rand_data(rng, 3), id=rng.choice([None, None, 0, 7, 2**40, "abc", "17", 2**31, 2**53 - 1, 2**53, 2**53 + 1, -(2**53) - 1, 2**63 - 1, 2**63,
                                2**64 + 1, -1, "", "0", "2**53"]))


def run_case(case, ctx):
    from aw_core.models import Event
    import jsonschema
    if case["kind"] == "sweep":
        viols = []
        base, off, rep = case["base"], case["off"], case["rep"]
        for u in range(case["lo"], case["hi"]):
            us = base + u
            dt = mk_dt(us, off)
            e = Event(timestamp=dt if rep == "dt" else _iso(dt, rep))
            v = _check_event_ts(e, us, f"sweep-{rep}")
            if v:
                viols.append((v[0][0], f"base={base} off={off} µs={u}: {v[0][1]}"))
                if len(viols) > 3:
                    break
        n = case["hi"] - case["lo"]
        ctx.count("floor_values_checked", n)
        ctx.count("events_constructed", n)
        return viols, dict(sig=("sweep", rep, off, base), nontrivial=True, weight=n,
                           sample=dict(case, note=f"{n} consecutive microsecond values"))
    us, off, rep = case["us"], case["off"], case["rep"]
    dt = mk_dt(us, off, case.get("zone"))
    given = dt if rep == "dt" else _iso(dt, rep)
    want_us = _expected_us(us, rep)
    dur_us = case["dur"]
    if case["durk"] == "td":
        dur = timedelta(microseconds=dur_us)
    elif case["durk"] == "int":
        dur = dur_us // 10**6
    else:
        dur = dur_us / 10**6
    viols = []
    e = Event(id=case["id"], timestamp=given, duration=dur, data=json.loads(json.dumps(case["data"])))
    ctx.count("events_constructed")
    viols += _check_event_ts(e, want_us, "init")
    if not isinstance(e.duration, timedelta) or td_us(e.duration) != dur_us:
        viols.append(("duration-not-exact", f"given={dur!r} ({case['durk']}) want_us={dur_us} got={e.duration!r}"))
    if case.get("zone") and rep == "dt":
        # the same clock reading the other time round: in the repeated hour at the end of daylight saving time two instants
        # an hour apart read the same on the wall clock and differ only in `fold` (two such datetimes even compare equal)
        other = dt.replace(fold=1 - dt.fold)
        if other.utcoffset() != dt.utcoffset():
            other_us = dt_us(other.astimezone(timezone.utc))
            viols += _check_event_ts(Event(timestamp=other, duration=0), _expected_us(other_us, rep), "same-clock-reading-other-fold")
            viols += _check_event_ts(Event(timestamp=given, duration=0), want_us, "same-clock-reading-first-fold-again")
            ctx.count("clock_readings_built_for_both_folds")
    # the setter path
    e2 = Event(timestamp=mk_dt(0), duration=0)
    e2.timestamp = given
    e2.duration = dur
    viols += _check_event_ts(e2, want_us, "setter")
    if td_us(e2.duration) != dur_us:
        viols.append(("duration-setter-not-exact", f"given={dur!r} got={e2.duration!r}"))
    # JSON form
    jd = e.to_json_dict()
    _N[0] += 1
    if _N[0] % 500 == 0:
        # the published schema is what get_json_schema hands out NOW - to a caller that asks after another caller has
        # edited the dict it was given (a consumer deriving a stricter schema of its own): fetched afresh, compared with the
        # text first seen, and the copy used so far is edited the way such a consumer would
        from aw_core.schema import get_json_schema
        fresh = get_json_schema("event")
        if canon(fresh) != _SCHEMA_TEXT[0]:
            viols.append(("published-schema-changed-after-a-caller-edited-its-copy",
                          f"first seen={_SCHEMA_TEXT[0][:300]} now={canon(fresh)[:300]}"))
        old = _SCHEMA[0]
        _SCHEMA[0] = fresh
        old.setdefault("required", []).extend(["duration", "data"])
        old.setdefault("properties", {}).setdefault("data", {})["required"] = ["app", "title"]
        old["properties"].pop("timestamp", None)
        ctx.count("schema_refetched_after_editing_the_previous_copy")
    try:
        jsonschema.validate(jd, _SCHEMA[0], format_checker=_CHECKER[0])
        ctx.count("schema_validations")
    except jsonschema.ValidationError as ex:
        viols.append(("json-form-fails-schema", f"{ex.message[:200]} json={json.dumps(jd)[:300]}"))
    if _N[0] % 7 == 0:
        # the JSON form is the form of the event AS IT IS NOW: serialise, edit the data in place (what annotating transforms
        # do), serialise again
        e3 = Event(**json.loads(json.dumps(jd)))           # (an event of its own: the checks below still look at e)
        first = e3.to_json_str()
        e3.data["$edited"] = [1]
        for v in list(e3.data.values()):
            if isinstance(v, list):
                v.append("x")
        second = json.loads(e3.to_json_str())
        if canon(second.get("data")) != canon(e3.data) or canon(e3.to_json_dict().get("data")) != canon(e3.data):
            viols.append(("json-form-is-not-the-events-current-state", f"after an in-place edit: event data={canon(e3.data)[:200]} to_json_str data={canon(second.get('data'))[:200]} (first={first[:120]})"))
        ctx.count("serialised_again_after_an_in_place_edit")
    for label, src in (("from-json-dict", jd), ("from-json-str", json.loads(e.to_json_str())), ("from-event", e)):
        try:
            r = Event(**src)
        except Exception as ex:  # noqa: BLE001
            viols.append((f"rebuild-{label}-raised", f"{type(ex).__name__}: {ex}"))
            continue
        same = (dt_us(r.timestamp) == dt_us(e.timestamp) and td_us(r.duration) == td_us(e.duration)
                and canon(r.data) == canon(e.data) and r == e)
        if not same:
            viols.append((f"rebuild-{label}-not-equal", f"orig={(dt_us(e.timestamp), td_us(e.duration), canon(e.data)[:120])} "
                                                        f"rebuilt={(dt_us(r.timestamp), td_us(r.duration), canon(r.data)[:120])}"))
        if r.id != e.id or type(r.id) is not type(e.id):
            viols.append((f"rebuild-{label}-id-differs", f"{e.id!r} -> {r.id!r}"))
    if canon(e.data) != canon(case["data"]):
        viols.append(("data-changed-by-constructor", f"{canon(case['data'])[:200]} -> {canon(e.data)[:200]}"))
    usc = "0" if us % 1000 == 0 else ("999" if us % 1000 == 999 else "x")
    if us < 0:
        usc += "-pre-epoch"
    if case.get("zone"):
        usc += "-dst-zone-fold%d" % getattr(dt, "fold", 0)
    sig = (rep, (off > 0) - (off < 0), usc, case["durk"], dur_us == 0, dur_us % 1000 != 0, type(case["id"]).__name__)
    nontriv = us % 1000 != 0 or off != 0 or case["durk"] == "float"
    return viols, dict(sig=sig, nontrivial=nontriv)
