"""Instrumentation: function-boundary monitors, line coverage, SQL tracing, observer connections,
activation budget. None of it edits the repository; everything attaches from outside."""
import copy
import os
import sqlite3
import sys
import types

# ---------------------------------------------------------------------------
# line coverage of the anchored files (sys.monitoring LINE events that disable themselves)


def _code_objects(code):
    yield code
    for c in code.co_consts:
        if isinstance(c, types.CodeType):
            yield from _code_objects(c)


def executable_lines(path: str) -> set:
    """Lines inside function bodies (module-level lines run at import, before any monitor exists)."""
    with open(path) as f:
        src = f.read()
    top = compile(src, path, "exec")
    lines = set()
    for c in _code_objects(top):
        if c is top or not (c.co_flags & 0x1):   # module and class bodies run at import
            continue
        for _, _, ln in c.co_lines():
            if ln is not None and ln > 0 and ln != c.co_firstlineno:
                lines.add(ln)
    return lines


class LineCoverage:
    TOOL = 3

    def __init__(self, repo, rel_files):
        self.repo = os.path.realpath(repo)
        self.files = {os.path.join(self.repo, r): r for r in rel_files}
        self.hit = {r: set() for r in rel_files}
        self.on = False

    def start(self):
        mon = sys.monitoring
        try:
            mon.use_tool_id(self.TOOL, "awverif-cov")
        except ValueError:
            return
        files, hit = self.files, self.hit

        def on_line(code, line):
            rel = files.get(code.co_filename)
            if rel is not None:
                hit[rel].add(line)
            return mon.DISABLE

        mon.register_callback(self.TOOL, mon.events.LINE, on_line)
        mon.set_events(self.TOOL, mon.events.LINE)
        self.on = True

    def stop(self):
        if self.on:
            mon = sys.monitoring
            mon.set_events(self.TOOL, 0)
            mon.register_callback(self.TOOL, mon.events.LINE, None)
            mon.free_tool_id(self.TOOL)
            self.on = False
        return {r: sorted(s) for r, s in self.hit.items()}


# ---------------------------------------------------------------------------
# activation budget: PY_START events for code under a path prefix (C17 bounded progress)


class ActivationCounter:
    TOOL = 4

    def __init__(self, prefix):
        self.prefix = os.path.realpath(prefix) + os.sep
        self.n = 0
        self.limit = None

    class Exceeded(BaseException):
        pass

    def start(self):
        mon = sys.monitoring
        mon.use_tool_id(self.TOOL, "awverif-steps")
        prefix = self.prefix

        def on_start(code, offset):
            if not code.co_filename.startswith(prefix):
                return mon.DISABLE
            self.n += 1
            if self.limit is not None and self.n > self.limit:
                self.limit = None
                raise ActivationCounter.Exceeded()

        mon.register_callback(self.TOOL, mon.events.PY_START, on_start)
        mon.set_events(self.TOOL, mon.events.PY_START)

    def stop(self):
        mon = sys.monitoring
        mon.set_events(self.TOOL, 0)
        mon.register_callback(self.TOOL, mon.events.PY_START, None)
        mon.free_tool_id(self.TOOL)


# ---------------------------------------------------------------------------
# function-boundary monitors (same shape as icontract.snapshot + ensure, no dependency)


class Monitor:
    """Wraps `module.name` (and every alias of it in loaded aw_* modules). On each call: deep-copies
    the arguments, evaluates the domain predicate `pre`, calls through, and hands
    (old_args, old_kwargs, result, exc, args_after, kwargs_after) to `post`, which returns a list
    of (kind, detail) violations. Never raises into the code under test (other than re-raising
    what the code under test itself raised)."""

    registry = []

    def __init__(self, module, name, pre, post, label=None):
        self.module, self.name, self.pre, self.post = module, name, pre, post
        self.label = label or f"{module.__name__}.{name}"
        self.orig = getattr(module, name)
        self.evaluations = 0
        self.out_of_domain = 0
        self.violations = []   # (kind, detail, (old_args, old_kwargs))
        self.violations_total = 0
        self.patched = []
        self.active = True
        mon = self

        def wrapper(*args, **kwargs):
            if not mon.active:
                return mon.orig(*args, **kwargs)
            result, exc, viols, _ = mon.judge(args, kwargs, keep=True)
            if exc is not None:
                raise exc
            return result

        wrapper.__wrapped__ = self.orig
        wrapper.__name__ = getattr(self.orig, "__name__", name)
        wrapper.__doc__ = getattr(self.orig, "__doc__", None)
        self.wrapper = wrapper

    def judge(self, args, kwargs=None, keep=False):
        """Call the real function on (args, kwargs) under the monitor.
        Returns (result, exc, violations, in_domain)."""
        kwargs = kwargs or {}
        try:
            old_args, old_kwargs = copy.deepcopy((args, kwargs))
            in_domain = bool(self.pre(*old_args, **old_kwargs)) if self.pre else True
        except Exception:
            in_domain = False
            old_args, old_kwargs = args, kwargs
        exc = None
        result = None
        self.active, was = False, self.active   # nested calls of the same function are not re-judged
        try:
            result = self.orig(*args, **kwargs)
        except Exception as e:  # noqa: BLE001 - judged below, re-raised by the wrapper
            exc = e
        finally:
            self.active = was
        if not in_domain:
            self.out_of_domain += 1
            return result, exc, [], False
        self.evaluations += 1
        try:
            viols = list(self.post(old_args, old_kwargs, result, exc, args, kwargs) or [])
        except Exception as e:  # an oracle crash is reported, never swallowed
            import traceback
            viols = [("oracle-error", f"{type(e).__name__}: {e} :: {traceback.format_exc()[-600:]}")]
        if viols:
            self.violations_total += len(viols)
            if keep and len(self.violations) < 20:
                for kind, detail in viols:
                    self.violations.append((kind, detail, (old_args, old_kwargs)))
        return result, exc, viols, True

    def install(self):
        for m in list(sys.modules.values()):
            mname = getattr(m, "__name__", "")
            if not (mname.startswith("aw_") or mname.startswith("tests") or mname.startswith("test_")):
                continue
            for attr, val in list(vars(m).items()):
                if val is self.orig:
                    setattr(m, attr, self.wrapper)
                    self.patched.append((m, attr))
        Monitor.registry.append(self)
        return self

    def uninstall(self):
        for m, attr in self.patched:
            setattr(m, attr, self.orig)
        self.patched = []
        if self in Monitor.registry:
            Monitor.registry.remove(self)


# ---------------------------------------------------------------------------
# SQL statement tracing and the observer connection


def writer_connection(storage):
    """The sqlite3 connection the store itself writes through."""
    if hasattr(storage, "conn"):
        return storage.conn
    return storage.db.connection()


def trace(storage, cb):
    writer_connection(storage).set_trace_callback(cb)


def untrace(storage):
    writer_connection(storage).set_trace_callback(None)


def observer(path: str, timeout=0.2):
    """A second, read-only connection: sees exactly the committed state."""
    return sqlite3.connect(f"file:{__import__('urllib.parse').parse.quote(path)}?mode=ro", uri=True, timeout=timeout)
