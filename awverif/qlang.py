"""The query language, independently: typed program generator (ASTs), printer with variable spacing,
reference evaluator, canonical values, registry recorder. Shared by C11, C12 and C17.

AST nodes (plain JSON): ["int", n] ["str", s] ["list", [node…]] ["dict", [[key, node]…]] ["var", name]
["call", name, [node…]]; a program is a list of [variable name, node] statements."""
import copy
from datetime import datetime, timedelta

from .gen import canon, dt_us, td_us

# ---------------------------------------------------------------------------
# canonical values


def cv(x, _stack=None):
    """Canonical plain-JSON form of a query value. Cycle-safe: a program can build a cyclic value
    (categorize(x, [[["", x], {...}]]) stores x inside its own events)."""
    from aw_core.models import Event
    if isinstance(x, (dict, list, tuple)):
        _stack = _stack or set()
        if id(x) in _stack or len(_stack) > 60:
            return ["cycle"]
        _stack = _stack | {id(x)}
    if isinstance(x, Event):
        return ["E", x.id, dt_us(x.timestamp), td_us(x.duration), cv(x.data, _stack)]
    if isinstance(x, dict):
        return ["d", sorted([str(k), cv(v, _stack)] for k, v in x.items())]
    if isinstance(x, (list, tuple)):
        return ["l", [cv(v, _stack) for v in x]]
    if isinstance(x, bool):
        return ["b", x]
    if isinstance(x, int):
        return ["i", x]
    if isinstance(x, float):
        return ["f", repr(x)]
    if isinstance(x, str):
        return ["s", x]
    if x is None:
        return ["n"]
    if isinstance(x, timedelta):
        return ["td", td_us(x)]
    if isinstance(x, datetime):
        return ["dt", dt_us(x)]
    return ["?", repr(x)]


# ---------------------------------------------------------------------------
# printer


def q_string(s, rng=None):
    """Text of a string literal. Both quote kinds are usable; the delimiter is escaped with a backslash.
    The quote kind depends on the content only, so two printings of one AST differ in spacing alone."""
    import zlib
    q = "'" if zlib.crc32(s.encode()) % 5 < 2 else '"'
    return q + s.replace(q, "\\" + q) + q


class Spacing:
    """Whitespace policy around the separators , : = ; (0 = none)."""

    def __init__(self, rng=None, style=None):
        self.rng = rng
        self.style = style  # "tight" | "spaced" | None (random per separator)

    def ws(self):
        if self.style == "tight" or self.rng is None:
            return ""
        if self.style == "spaced":
            return " "
        return self.rng.choice(["", "", " ", " ", "  ", "\n", " \n ", "\t", "\r\n"])

    def sep(self, ch):
        return self.ws() + ch + self.ws()


def render(node, sp, rng=None):
    k = node[0]
    if k == "int":
        return str(node[1])
    if k == "str":
        return q_string(node[1], rng)
    if k == "var":
        return node[1]
    if k == "list":
        return "[" + sp.sep(",").join(render(n, sp, rng) for n in node[1]) + "]"
    if k == "dict":
        return "{" + sp.sep(",").join(q_string(key, rng) + sp.sep(":") + render(v, sp, rng) for key, v in node[1]) + "}"
    if k == "call":
        return node[1] + "(" + sp.sep(",").join(render(n, sp, rng) for n in node[2]) + ")"
    raise ValueError(k)


def render_program(prog, sp, rng=None):
    out = []
    for name, node in prog:
        out.append(name + sp.sep("=") + render(node, sp, rng))
    text = sp.sep(";").join(out)
    if rng is not None and rng.random() < 0.5:
        text += sp.ws() + ";"
    return text


# ---------------------------------------------------------------------------
# reference evaluator


class RefError(Exception):
    def __init__(self, category, msg=""):
        super().__init__(msg)
        self.category = category


def initial_env(name, start_iso, end_iso):
    return {"True": True, "False": False, "true": True, "false": False,
            "NAME": name, "STARTTIME": start_iso, "ENDTIME": end_iso}


def ref_eval_node(node, env, ds, registry, trace):
    k = node[0]
    if k == "int":
        return node[1]
    if k == "str":
        return node[1]
    if k == "var":
        if node[1] not in env:
            raise RefError("interpret", f"unknown variable {node[1]}")
        return env[node[1]]
    if k == "list":
        return [ref_eval_node(n, env, ds, registry, trace) for n in node[1]]
    if k == "dict":
        return {key: ref_eval_node(v, env, ds, registry, trace) for key, v in node[1]}
    if k == "call":
        if node[1] not in registry:
            raise RefError("interpret", f"unknown function {node[1]}")
        args = [ref_eval_node(n, env, ds, registry, trace) for n in node[2]]
        trace.append([node[1], cv(args)])
        try:
            return registry[node[1]](ds, env, *args)
        except RefError:
            raise
        except Exception as ex:  # noqa: BLE001 - whatever the built-in raises, the implementation must raise too
            raise RefError("builtin", f"{type(ex).__name__}: {ex}") from ex
    raise ValueError(k)


def ref_eval(prog, ds, registry, name, start_iso, end_iso):
    """Returns (value, trace). Raises RefError."""
    env = initial_env(name, start_iso, end_iso)
    trace = []
    for var, node in prog:
        env[var] = ref_eval_node(node, env, ds, registry, trace)
    if "RETURN" not in env:
        raise RefError("parse", "no RETURN")
    return env["RETURN"], trace


# ---------------------------------------------------------------------------
# registry: recorder + the harness's identity built-ins


def _reach(x, acc=None, depth=0):
    """ids of the containers (lists, dicts, events) reachable from x"""
    acc = set() if acc is None else acc
    if isinstance(x, (list, tuple, dict)) and id(x) not in acc and depth < 40:
        acc.add(id(x))
        for v in (x.values() if isinstance(x, dict) else x):
            _reach(v, acc, depth + 1)
    return acc


# built-ins that annotate the events they are given IN PLACE (their keys are added to the caller's events): C19's
# subject, and acknowledged by C12's quantifier ("programs that annotate ... events in place")
# period_union likewise clears, in place, the data of those input events that it returns unmerged ("clear ... in place").
ANNOTATORS = {"categorize", "tag", "split_url_events", "period_union"}


class Registry:
    """Wraps every entry of aw_query.functions.functions with a recorder (name, canonical args) and registers the
    identity built-ins vp0..vp3 through the registry's own decorator."""

    def __init__(self):
        import aw_query.functions as F
        self.F = F
        self.trace = []
        self.arg_effects = []  # (name, args before, args after) of calls that changed the values they were given
        self.namespace_effects = []   # (name, variables re-bound / bound / unbound by the call)
        self.calls_compared = 0
        self.results = []      # (name, args, result) for selected built-ins
        self.raised = []       # (name, args, exception) for the same built-ins, when the call ended in an exception
        self.keep_results_of = set()
        self._register_identity()
        self.orig = dict(F.functions)
        for name, fn in self.orig.items():
            F.functions[name] = self._rec(name, fn)

    def _register_identity(self):
        F = self.F
        if "vp0" in F.functions:
            return

        @F.q2_function()
        def q2_vp0():
            return []

        @F.q2_function()
        def q2_vp1(a):
            return [a]

        @F.q2_function()
        def q2_vp2(a, b):
            return [a, b]

        @F.q2_function()
        def q2_vp3(a, b, c):
            return [a, b, c]

    def _rec(self, name, fn):
        reg = self

        def recorder(datastore, namespace, *args, **kwargs):
            before = None
            try:   # the recorder must never raise into the code under test
                before = cv(list(args))
                reg.trace.append([name, before])
            except Exception as ex:  # noqa: BLE001
                reg.trace.append([name, ["unrecordable", type(ex).__name__]])
            ns_before = None
            try:
                # the variables of the running program: a built-in is handed them to read the query's NAME and period - it
                # does not assign (only statements do)
                ns_before = {k: (id(v), type(v).__name__) for k, v in namespace.items()} if isinstance(namespace, dict) else None
            except Exception:  # noqa: BLE001
                pass
            try:
                result = fn(datastore, namespace, *args, **kwargs)
            except BaseException as ex:
                if name in reg.keep_results_of:
                    reg.raised.append((name, list(args), ex))
                raise
            finally:
                if ns_before is not None:
                    try:
                        ns_after = {k: (id(v), type(v).__name__) for k, v in namespace.items()}
                        if ns_after != ns_before:
                            changed = sorted(k for k in set(ns_before) | set(ns_after) if ns_before.get(k) != ns_after.get(k))
                            reg.namespace_effects.append((name, changed, {k: (ns_before.get(k, ("-", "unbound"))[1], ns_after.get(k, ("-", "unbound"))[1]) for k in changed}))
                    except Exception:  # noqa: BLE001
                        pass
                # what the call did to the values it was given (they may be bound to variables of the program)
                if before is not None and name != "period_union":
                    try:
                        # an annotator may add keys to the EVENTS it is given (its first argument) - nothing else
                        skip = 1 if name in ANNOTATORS else 0
                        if skip and len(args) > 1 and _reach(args[0]) & _reach(list(args[1:])):
                            skip = len(args)      # the other arguments contain the very events being annotated: nothing to compare
                        after = cv(list(args))
                        reg.calls_compared += 1
                        if after[1][skip:] != before[1][skip:]:
                            reg.arg_effects.append((name, before, after))
                    except Exception:  # noqa: BLE001
                        pass
            if name in reg.keep_results_of:
                try:
                    reg.results.append((name, list(args), copy.deepcopy(result)))
                except Exception:  # noqa: BLE001
                    pass
            return result

        recorder.__wrapped__ = fn
        recorder.__name__ = getattr(fn, "__name__", name)
        return recorder

    def reset(self):
        self.trace = []
        self.results = []
        self.raised = []
        self.arg_effects = []
        self.namespace_effects = []

    def bodies(self):
        """Code objects of the built-in bodies (the end of each entry's __wrapped__ chain)."""
        out = {}
        for name, fn in self.orig.items():
            f = fn
            while hasattr(f, "__wrapped__"):
                f = f.__wrapped__
            out[f.__code__] = name
        return out

    def restore(self):
        for name, fn in self.orig.items():
            self.F.functions[name] = fn


# ---------------------------------------------------------------------------
# typed program generator

BUCKETS = ["aw-watcher-window_host", "aw-watcher-afk_host", "aw-watcher-web_host"]

_STR_POOL = ["", "a", "app", "title", "url", "status", "not-afk", "afk", "firefox", "x y", "ünï", "日本", "a,b", "a, b",
             "[x]", "(y)", "{z}", "k=v", "a:b", "it's", 'say "hi"', "back\\slash", "\\\"q", "]", ")", "}", ",", "((", "[[",
             "'", '"', "a\\'b", "tab\there", "#c", "1", "f(1)", "x=[1,2]", "\\n",
             # text that a well-meant normalisation (Unicode composition, compatibility folding, case folding, trimming)
             # would re-spell: a string literal means exactly the characters written
             "Cafe\u0301", "\u1112\u1161\u11ab", "10 k\u2126", "q\u0307\u0323", "\ufb01n", "\uff21\uff22", " padded ",
             "MiXeD", "a\u00a0b", "a\u200bb", "\u202ertl", "line\u2028sep", "\u00c5 \u212b A\u030a"]
_KEY_POOL = ["app", "title", "url", "status", "$category", "$tags", "missing"]
_REGEX_POOL = ["fire", "Fire", "^a", "x|y", ".", "vim", "[A-Z]", "a.c", "ü"]
_VARS = ["x", "y", "z", "events", "e2", "_v1", "a1", "afk", "Tmp", "not_afk"]

EVENT_FNS_1 = ["sort_by_timestamp", "sort_by_duration", "flood", "split_url_events"]
EVENT_FNS_2 = ["filter_period_intersect", "period_union", "concat", "union_no_overlap"]


class ProgGen:
    def __init__(self, rng, max_depth=4, mutating_bias=False):
        self.rng = rng
        self.max_depth = max_depth
        self.mutating_bias = mutating_bias

    def s(self):
        r = self.rng
        if r.random() < 0.75:
            return r.choice(_STR_POOL)
        alpha = "ab z,;:=[](){}'\"\\_-1 üx"
        s = "".join(r.choice(alpha) for _ in range(r.randrange(0, 8)))
        return s

    def clean(self, s):
        """strings a program can express: no ';' (statements are split on it), no trailing backslash"""
        s = s.replace(";", ",")
        while s.endswith("\\"):
            s = s[:-1] + "/"
        return s

    def lit_str(self, pool=None):
        return ["str", self.clean(self.rng.choice(pool) if pool else self.s())]

    def vars_of(self, env, t):
        return [v for v, vt in env.items() if vt == t]

    def expr(self, t, env, depth):
        r = self.rng
        if t == "int":
            vs = self.vars_of(env, "int")
            c = r.random()
            if vs and c < 0.3:
                return ["var", r.choice(vs)]
            if c < 0.4 and depth > 0:
                return ["call", "nop", []]
            if c < 0.5 and depth > 0:
                return ["call", "query_bucket_eventcount", [self.expr("bucket", env, depth - 1)]]
            return ["int", r.choice([0, 1, 2, 3, 10, 100, 12345678901234567890])]
        if t == "str":
            vs = self.vars_of(env, "str")
            if vs and r.random() < 0.3:
                return ["var", r.choice(vs)]
            return self.lit_str()
        if t == "key":
            return self.lit_str(_KEY_POOL)
        if t == "regex":
            return self.lit_str(_REGEX_POOL)
        if t == "bucket":
            c = r.random()
            vs = self.vars_of(env, "bucket")
            if vs and c < 0.3:
                return ["var", r.choice(vs)]
            if c < 0.5 and depth > 0:
                return ["call", "find_bucket", [["str", r.choice(["window", "afk", "web", "aw-watcher"])]] +
                        ([["str", "host"]] if r.random() < 0.3 else [])]
            return ["str", r.choice(BUCKETS)]
        if t == "bool":
            return ["var", r.choice(["true", "false", "True", "False"])]
        if t == "strlist":
            return ["list", [self.lit_str() for _ in range(r.randrange(0, 4))]]
        if t == "keys":
            return ["list", [self.lit_str(_KEY_POOL) for _ in range(r.randrange(1, 4))]]
        if t == "vals":
            return ["list", [self.lit_str(["firefox", "vim", "afk", "not-afk", "x", ""]) if r.random() < 0.8 else ["int", 1]
                             for _ in range(r.randrange(0, 4))]]
        if t == "rules":
            rules = []
            for _ in range(r.randrange(0, 4)):
                spec = [["regex", self.lit_str(_REGEX_POOL + [""])]]
                if r.random() < 0.5:
                    spec.append(["ignore_case", self.expr("bool", env, 0)])
                if r.random() < 0.4:
                    spec.append(["select_keys", ["list", [self.lit_str(_KEY_POOL) for _ in range(r.randrange(0, 3))]]])
                r.shuffle(spec)
                cat = ["list", [self.lit_str(["Work", "Media", "x", "y"]) for _ in range(r.randrange(0, 4))]]
                rules.append(["list", [cat, ["dict", spec]]])
            return ["list", rules]
        if t == "tagrules":
            rules = []
            for _ in range(r.randrange(0, 4)):
                spec = [["regex", self.lit_str(_REGEX_POOL)]]
                if r.random() < 0.5:
                    spec.append(["ignore_case", self.expr("bool", env, 0)])
                rules.append(["list", [self.lit_str(["t1", "t2", "t,3"]), ["dict", spec]]])
            return ["list", rules]
        if t == "events":
            return self.events(env, depth)
        if t == "any":
            return self.any(env, depth)
        raise ValueError(t)

    def events(self, env, depth):
        r = self.rng
        vs = self.vars_of(env, "events")
        c = r.random()
        if depth <= 0 or c < 0.15:
            if vs and r.random() < 0.7:
                return ["var", r.choice(vs)]
            if r.random() < 0.25:
                return ["list", []]
            return ["call", "query_bucket", [self.expr("bucket", env, 0)]]
        if vs and c < 0.3:
            return ["var", r.choice(vs)]
        d = depth - 1
        E = lambda: self.events(env, d)  # noqa: E731
        choices = [
            lambda: ["call", "query_bucket", [self.expr("bucket", env, d)]],
            lambda: ["call", r.choice(EVENT_FNS_1), [E()]],
            lambda: ["call", r.choice(EVENT_FNS_2), [E(), E()]],
            lambda: ["call", r.choice(["filter_keyvals", "exclude_keyvals"]), [E(), self.expr("key", env, d), self.expr("vals", env, d)]],
            lambda: ["call", "filter_keyvals_regex", [E(), self.expr("key", env, d), self.expr("regex", env, d)]],
            lambda: ["call", "limit_events", [E(), self.expr("int", env, d)]],
            lambda: ["call", "merge_events_by_keys", [E(), self.expr("keys", env, d)]],
            lambda: ["call", "chunk_events_by_key", [E(), self.expr("key", env, d)]],
            lambda: ["call", "simplify_window_titles", [E(), self.lit_str(["title", "app"])]],
            lambda: ["call", "categorize", [E(), self.expr("rules", env, d)]],
            lambda: ["call", "tag", [E(), self.expr("tagrules", env, d)]],
        ]
        if self.mutating_bias and r.random() < 0.6:
            choices = [choices[i] for i in (1, 2, 7, 9, 10)] + [
                lambda: ["call", "split_url_events", [E()]], lambda: ["call", "period_union", [E(), E()]],
                lambda: ["call", "flood", [E()]]]
        return r.choice(choices)()

    def any(self, env, depth):
        r = self.rng
        c = r.random()
        if depth <= 0:
            c = c * 0.45
        if c < 0.15:
            return ["int", r.choice([0, 1, 7, 42, 1000000])]
        if c < 0.35:
            return self.lit_str()
        if c < 0.45:
            vs = list(env)
            return ["var", r.choice(vs)] if vs else ["int", 3]
        d = depth - 1
        if c < 0.6:
            return ["list", [self.any(env, d) for _ in range(r.randrange(0, 4))]]
        if c < 0.7:
            keys = []
            for _ in range(r.randrange(0, 4)):
                k = self.clean(self.s())
                if k not in keys:
                    keys.append(k)
            return ["dict", [[k, self.any(env, d)] for k in keys]]
        if c < 0.9:
            n = r.randrange(0, 4)
            return ["call", f"vp{n}", [self.any(env, d) for _ in range(n)]]
        if c < 0.95:
            return self.events(env, min(d, 2))
        return ["call", "sum_durations", [self.events(env, min(d, 1))]]

    def with_var(self, v, depth):
        """an expression tree in which the variable v occurs at nesting depth 1..depth (inside lists, dicts, calls)"""
        r = self.rng
        if depth <= 0:
            return ["var", v]
        inner = self.with_var(v, depth - 1)
        sib = lambda: self.any({}, 0)  # noqa: E731
        c = r.random()
        if c < 0.4:
            items = [sib() for _ in range(r.randrange(0, 3))]
            items.insert(r.randrange(len(items) + 1), inner)
            return ["list", items]
        if c < 0.65:
            entries = [[k, sib()] for k in r.sample(["a", "b", "k v", "regex"], r.randrange(0, 3))]
            entries.insert(r.randrange(len(entries) + 1), ["key", inner])
            return ["dict", entries]
        n = r.randrange(1, 4)
        args = [sib() for _ in range(n - 1)]
        args.insert(r.randrange(n), inner)
        return ["call", f"vp{n}", args]

    def reeval_program(self):
        """x = A; a = E(x); x = B; b = E(x); RETURN = [a, b, x] - the same expression text is evaluated twice around a
        rebinding of a variable it mentions at some nesting depth"""
        r = self.rng
        v = r.choice(_VARS)
        first, second = (["int", r.randrange(0, 50)], ["int", r.randrange(50, 99)]) if r.random() < 0.5 else (
            self.lit_str(["alpha", "beta"]), self.lit_str(["gamma", "it's"]))
        e = self.with_var(v, r.randrange(1, 5))
        a, b_ = r.sample([x for x in _VARS if x != v], 2)
        prog = [[v, first], [a, e], [v, second], [b_, copy.deepcopy(e)]]
        if r.random() < 0.3:
            prog.insert(2, [r.choice([x for x in _VARS if x not in (v, a, b_)]), self.any({v: "any"}, 2)])
        prog.append(["RETURN", ["call", "vp3", [["var", a], ["var", b_], ["var", v]]]])
        return prog

    def program(self):
        r = self.rng
        if r.random() < 0.15:
            return self.reeval_program()
        env = {}
        prog = []
        n = r.randrange(1, 9)
        for i in range(n):
            last = i == n - 1
            t = r.choice(["events", "events", "any", "any", "int", "str", "bucket"])
            depth = r.randrange(1, self.max_depth + 1)
            node = self.expr(t, env, depth)
            if last:
                name = "RETURN"
            else:
                name = r.choice(_VARS)
                if r.random() < 0.1:
                    name = "RETURN"
            prog.append([name, node])
            env[name] = "any" if t == "any" else t
            if not last and r.random() < 0.2 and env:
                # aliasing: y = x
                src = r.choice(list(env))
                alias = r.choice(_VARS)
                prog.append([alias, ["var", src]])
                env[alias] = env[src]
        evs = [v for v, t in env.items() if t == "events" and v != "RETURN"]
        if evs and r.random() < 0.4:
            # rebinding through an in-place mutator: x = categorize(x, …) is visible through every alias of x
            v = r.choice(evs)
            fn = r.choice(["categorize", "tag", "split_url_events", "sort_by_timestamp", "flood"])
            args = [["var", v]]
            if fn == "categorize":
                args.append(self.expr("rules", env, 1))
            elif fn == "tag":
                args.append(self.expr("tagrules", env, 1))
            prog.insert(len(prog) - 1, [v, ["call", fn, args]])
        if r.random() < 0.5:
            # make the result show several bindings at once (rebinding + aliasing become visible)
            names = [v for v in env if v != "RETURN"]
            r.shuffle(names)
            names = names[:3]
            if names:
                prog[-1] = ["RETURN", ["call", f"vp{len(names)}", [["var", v] for v in names]]]
        return prog


def node_kinds(node, out, pos=None):
    """(callee arity, position, kind of argument node) features for signatures"""
    k = node[0]
    if k == "call":
        for i, a in enumerate(node[2]):
            out.add((len(node[2]), i, a[0]))
            node_kinds(a, out)
    elif k == "list":
        for a in node[1]:
            node_kinds(a, out)
    elif k == "dict":
        for _, a in node[1]:
            node_kinds(a, out)


def string_features(node, out):
    k = node[0]
    if k == "str":
        s = node[1]
        for ch, name in ((",", "comma"), ('"', "dq"), ("'", "sq"), ("\\", "bs"), ("=", "eq"), (":", "colon")):
            if ch in s:
                out.add(name)
        if any(c in s for c in "[](){}"):
            out.add("bracket")
    elif k == "call":
        for a in node[2]:
            string_features(a, out)
    elif k == "list":
        for a in node[1]:
            string_features(a, out)
    elif k == "dict":
        for key, a in node[1]:
            string_features(["str", key], out)
            string_features(a, out)


def populate(ds, rng, base_us, long_range=False, odd_events=False, big=False):
    """Three populated buckets for query workloads. long_range: two of them also hold most of a year of long events
    (6-24 h each, about a third of the time covered), so that windows of weeks and months have something to cut."""
    from .gen import mk_event
    apps = ["firefox", "vim", "Firefox", "chrome"]
    titles = ["(2) Facebook", "main.py - vim", "● notes", "GitHub - firefox", "Cemu - FPS: 59.2 - x", "ünï"]
    urls = ["https://www.github.com/a/b?q=1#top", "http://example.com/", "https://www.example.org/x;p=1"]
    pos = base_us
    w, a, web = [], [], []
    for i in range(rng.randrange(4, 14)):
        dur = rng.choice([0, 1, 5, 30, 60]) * 10**6 + rng.choice([0, 0, 0, 300, 999])    # some ends fall between two milliseconds
        w.append(dict(ts=pos, dur=dur, data={"app": rng.choice(apps), "title": rng.choice(titles)}))
        if rng.random() < 0.7:
            web.append(dict(ts=pos + 10**6, dur=max(0, dur - 2 * 10**6), data={"url": rng.choice(urls), "title": rng.choice(titles)}))
        pos += dur + rng.choice([0, 0, 10**6, 3 * 10**6, 20 * 10**6])
    p2 = base_us - 5 * 10**6
    while p2 < pos:
        dur = rng.choice([10, 30, 60, 120]) * 10**6
        a.append(dict(ts=p2, dur=dur, data={"status": rng.choice(["not-afk", "afk"])}))
        p2 += dur
    if odd_events:
        # legal but unusual events: negative durations (clock adjustments between heartbeats), identical twins, a day-long one
        for lst in (w, web):
            for _ in range(rng.randrange(1, 4)):
                src = dict(rng.choice(lst)) if lst else dict(ts=base_us, dur=0, data={"title": "x"})
                kind = rng.choice(["negative", "negative", "twin", "day"])
                if kind == "negative":
                    src = dict(src, ts=src["ts"] + rng.choice([0, 10**6, 7 * 10**6]), dur=-rng.choice([1, 1000, 5 * 10**6, 90 * 10**6]))
                elif kind == "day":
                    src = dict(src, dur=86400 * 10**6)
                lst.append(src)
    lo = base_us - 10 * 10**6
    if long_range:
        hour, day = 3600 * 10**6, 86400 * 10**6
        for lst, mk in ((w, lambda: {"app": rng.choice(apps), "title": rng.choice(titles)}),
                        (a, lambda: {"status": rng.choice(["not-afk", "afk"])})):
            p3 = base_us - 300 * day + rng.randrange(0, day) // 1000 * 1000
            old = []
            while p3 < base_us - 2 * day:
                dur = rng.choice([6, 12, 20, 24]) * hour - rng.choice([0, 0, 1000, 1])
                old.append(dict(ts=p3, dur=dur, data=mk()))
                p3 += dur + rng.choice([0, hour, 12 * hour, 2 * day, 3 * day]) + rng.randrange(0, 3600) * 10**6
            lst[:0] = old
        lo = base_us - 301 * day
    if big:
        # a bucket beyond any likely page / batch size in which many events share their start instant with a
        # neighbour: whatever a reader does in pieces has to put the pieces together again without losing one
        p4 = base_us - 3 * 3600 * 10**6
        old = []
        for i in range(2600 + rng.randrange(0, 200)):
            if rng.random() >= 0.45:
                p4 += rng.choice([1000, 10**6, 10**6, 2 * 10**6, 5 * 10**6])
            old.append(dict(ts=p4, dur=rng.choice([0, 1000, 10**6, 3 * 10**6, 10 * 10**6]), data={"app": rng.choice(apps), "title": rng.choice(titles), "n": i}))
        w[:0] = old
        lo = min(lo, base_us - 3 * 3600 * 10**6 - 10 * 10**6)
    for bid, evs in zip(BUCKETS, (w, a, web)):
        b = ds.create_bucket(bid, type="t", client="c", hostname="host")
        b.insert([mk_event(s) for s in evs])
    return lo, pos + 10 * 10**6
