"""Per-case isolated stores built through the repository's own constructors."""
import itertools
import os

BACKENDS = ["memory", "sqlite", "peewee"]
_counter = itertools.count()


class Store:
    def __init__(self, backend: str, tmp: str, path: str = None, **kw):
        from aw_datastore import Datastore
        from aw_datastore.storages import MemoryStorage, PeeweeStorage, SqliteStorage

        self.backend = backend
        self.path = None
        if backend == "memory":
            self.ds = Datastore(MemoryStorage, testing=True)
        else:
            self.path = path or os.path.join(tmp, f"{backend}-{os.getpid()}-{next(_counter)}.db")
            cls = SqliteStorage if backend == "sqlite" else PeeweeStorage
            self.ds = Datastore(cls, testing=True, filepath=self.path, **kw)
        self.storage = self.ds.storage_strategy

    def tighten_limits(self, variables=999, compound=500):
        """Gives the store's connection the per-statement limits of an older / stock SQLite build (999 bound variables, 500
        compound terms) instead of whatever this machine's build allows (250 000 here): a resource made small, so that
        running out of it is cheap to reach. Returns False where it cannot be done."""
        import sqlite3
        if self.backend == "memory" or not hasattr(sqlite3.Connection, "setlimit"):
            return False
        conn = self.storage.conn if self.backend == "sqlite" else self.storage.db.connection()
        conn.setlimit(sqlite3.SQLITE_LIMIT_VARIABLE_NUMBER, variables)
        conn.setlimit(sqlite3.SQLITE_LIMIT_COMPOUND_SELECT, compound)
        return True

    def close(self, remove=True):
        st = self.storage
        try:
            if self.backend == "sqlite":
                st.conn.close()
            elif self.backend == "peewee":
                if not st.db.is_closed():
                    # a store under test may have left a transaction open (that is for the oracles to judge, from the
                    # committed state); closing must work regardless: abandon whatever is open, as a dying process would
                    try:
                        conn = st.db.connection()
                        while st.db.in_transaction():
                            st.db.pop_transaction()
                        conn.rollback()
                    except Exception:  # noqa: BLE001
                        pass
                    st.db.close()
        finally:
            if remove and self.path:
                for suf in ("", "-wal", "-shm", "-journal"):
                    try:
                        os.unlink(self.path + suf)
                    except FileNotFoundError:
                        pass

    def __enter__(self):
        return self

    def __exit__(self, *a):
        self.close()


def mk_bucket(ds, bid, **kw):
    kw.setdefault("type", "t")
    kw.setdefault("client", "c")
    kw.setdefault("hostname", "h")
    return ds.create_bucket(bid, **kw)
