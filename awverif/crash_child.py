"""Child process for real crashes: runs a history on a file-backed store and dies on request.

Journal (unbuffered os.write, outside the database): 'c j' before op j is invoked, 's'/'w' per traced statement
(w = event write) written BEFORE the statement executes, 'r j' after op j returned, 'done' at the end."""
import json
import logging
import os
import signal
import sys


def main():
    a = json.load(open(sys.argv[1][1:])) if sys.argv[1].startswith("@") else json.loads(sys.argv[1])
    logging.disable(logging.CRITICAL)
    from awverif.props._crash import HistoryRunner, is_event_write
    fd = os.open(a["journal"], os.O_WRONLY | os.O_CREAT | os.O_TRUNC)
    mode, k = a["mode"], a["k"]
    hr = HistoryRunner(a["backend"], a["path"], os.path.dirname(a["path"]), lazy=not a.get("eager"))
    n = [0]

    def on_stmt(stmt):
        n[0] += 1
        if mode == "sigkill" and n[0] == k:
            os.kill(os.getpid(), signal.SIGKILL)
        os.write(fd, b"w\n" if is_event_write(stmt) else b"s\n")

    hr.on_stmt = on_stmt
    os.write(fd, b"start\n")
    for j, op in enumerate(a["ops"]):
        os.write(fd, b"c %d\n" % j)
        hr.run_op(op)
        hr.refresh()
        os.write(fd, b"r %d\n" % j)
        if mode == "_exit" and j == k:
            os._exit(0)
        if mode == "exit" and j == k:
            sys.exit(0)           # interpreter shutdown, but no commit / close by the program
    os.write(fd, b"done\n")
    if mode in ("_exit", "parentkill", "sigkill"):
        os._exit(0)


if __name__ == "__main__":
    main()
