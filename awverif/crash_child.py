"""Child process for real crashes: runs a history on a file-backed store and dies on request.

Journal (unbuffered os.write, outside the database): 'c j' before op j is invoked, 's'/'w' per traced statement
(w = event write) written BEFORE the statement executes, 'r j' after op j returned, 'done' at the end."""
import json
import logging
import os
import signal
import sys


def main():
    a = json.load(open(sys.argv[1][1:])) if sys.argv[1].startswith("@") else json.loads(sys.argv[1])
    logging.disable(logging.CRITICAL)
    from awverif.props._crash import HistoryRunner, is_event_write
    fd = os.open(a["journal"], os.O_WRONLY | os.O_CREAT | os.O_TRUNC)
    mode, k = a["mode"], a["k"]
    hr = HistoryRunner(a["backend"], a["path"], os.path.dirname(a["path"]), lazy=not a.get("eager"))
    n = [0]

    def on_stmt(stmt):
        n[0] += 1
        if mode == "sigkill" and n[0] == k:
            os.kill(os.getpid(), signal.SIGKILL)
        os.write(fd, b"w\n" if is_event_write(stmt) else b"s\n")


    hr.on_stmt = on_stmt
    if mode == "interrupt":
        # Ctrl-C / a signal handler that raises: KeyboardInterrupt surfaces right after the k-th call that sends SQL to the
        # database has returned, i.e. BETWEEN two statements of an operation, and the interpreter then exits the orderly way
        # (atexit hooks and all) without the program shutting the store down. (Raised from Python-level wrappers around the
        # connection: an exception inside sqlite3's own trace callback would be swallowed.)
        calls = [0]

        def after_call():
            calls[0] += 1
            if calls[0] == k:
                raise KeyboardInterrupt("injected between two statements")

        if a["backend"] == "sqlite":
            real = hr.storage.conn

            class ConnProxy:
                def __getattr__(self, name):
                    return getattr(real, name)

                def execute(self, *args, **kw):
                    r = real.execute(*args, **kw)
                    after_call()
                    return r

                def executemany(self, *args, **kw):
                    r = real.executemany(*args, **kw)
                    after_call()
                    return r

                def cursor(self, *args, **kw):
                    return CursorProxy(real.cursor(*args, **kw))

                def __enter__(self):
                    return real.__enter__()

                def __exit__(self, *exc):
                    return real.__exit__(*exc)

            class CursorProxy:
                def __init__(self, cur):
                    self._cur = cur

                def __getattr__(self, name):
                    return getattr(self._cur, name)

                def __iter__(self):
                    return iter(self._cur)

                def execute(self, *args, **kw):
                    r = self._cur.execute(*args, **kw)
                    after_call()
                    return self if r is self._cur else r

                def executemany(self, *args, **kw):
                    r = self._cur.executemany(*args, **kw)
                    after_call()
                    return self if r is self._cur else r

            hr.storage.conn = ConnProxy()
        else:
            db = hr.storage.db
            orig = db.execute_sql

            def execute_sql(*args, **kw):
                r = orig(*args, **kw)
                after_call()
                return r

            db.execute_sql = execute_sql
    os.write(fd, b"start\n")
    for j, op in enumerate(a["ops"]):
        os.write(fd, b"c %d\n" % j)
        hr.run_op(op)
        hr.refresh()
        os.write(fd, b"r %d\n" % j)
        if mode == "_exit" and j == k:
            os._exit(0)
        if mode == "exit" and j == k:
            sys.exit(0)           # interpreter shutdown, but no commit / close by the program
    os.write(fd, b"done\n")
    if mode in ("_exit", "parentkill", "sigkill"):
        os._exit(0)


if __name__ == "__main__":
    main()
