"""./check <ID> [--tier quick|thorough] [--replay FILE]"""
import argparse
import os
import sys

from . import runner


def main(argv=None):
    ap = argparse.ArgumentParser(prog="check")
    ap.add_argument("property", help="C01 … C20, or 'all'")
    ap.add_argument("--tier", choices=["quick", "thorough"], default=os.environ.get("VERIF_TIER", "quick"))
    ap.add_argument("--replay", default=None)
    ap.add_argument("--seed", type=int, default=None)
    a = ap.parse_args(argv)
    seed = a.seed if a.seed is not None else int(os.environ.get("VERIF_SEED", "0") or 0)
    if a.tier not in ("quick", "thorough"):
        a.tier = "quick"
    if a.property.lower() == "all":
        worst = 0
        for pid in runner.ALL_IDS:
            try:
                runner.load_module(pid)
            except ModuleNotFoundError:
                continue
            rc = runner.run_property(pid, a.tier, seed)
            worst = max(worst, rc) if rc != 1 and worst != 1 else 1
        return worst
    pid = a.property.upper()
    if a.replay:
        return runner.replay(pid, a.replay)
    return runner.run_property(pid, a.tier, seed)


if __name__ == "__main__":
    sys.stdout.reconfigure(line_buffering=True, errors="backslashreplace")
    sys.exit(main())
