"""Seeded generators. Every generated case is plain JSON (ints, strings, lists, dicts) so that a
replay file is just the case; `mk_event` & co. turn specs into the repository's objects."""
import copy
import json
from datetime import datetime, timedelta, timezone

EPOCH = datetime(1970, 1, 1, tzinfo=timezone.utc)
US = timedelta(microseconds=1)


def dt_us(dt: datetime) -> int:
    """Exact integer microseconds since the epoch of an aware datetime."""
    return (dt - EPOCH) // US


def td_us(td: timedelta) -> int:
    return td // US


def mk_dt(us: int, off_min: int = 0, zone: str = None) -> datetime:
    """Aware datetime denoting the instant `us`: in a fixed-offset zone, or (zone given) in an IANA zone with DST rules -
    astimezone() then sets `fold` for the second occurrence of a repeated wall-clock hour."""
    if zone:
        return (EPOCH + timedelta(microseconds=us)).astimezone(get_zone(zone))
    return (EPOCH + timedelta(microseconds=us)).astimezone(timezone(timedelta(minutes=off_min)))


_ZONES = {}
ZONE_NAMES = ["Europe/London", "Europe/Berlin", "America/New_York", "Australia/Lord_Howe", "Europe/Lisbon", "Pacific/Auckland"]
# UTC instants (s) of some 2021 DST transitions of those zones: [spring-forward, fall-back]
ZONE_TRANSITIONS = {
    "Europe/London": [1616893200, 1635642000], "Europe/Berlin": [1616893200, 1635642000], "Europe/Lisbon": [1616893200, 1635642000],
    "America/New_York": [1615705200, 1636264800], "Australia/Lord_Howe": [1617462000, 1633188600],
    "Pacific/Auckland": [1632578400, 1617458400],
}


def get_zone(name):
    if name not in _ZONES:
        import zoneinfo
        _ZONES[name] = zoneinfo.ZoneInfo(name)
    return _ZONES[name]


def zones_available() -> bool:
    try:
        get_zone("Europe/London")
        return True
    except Exception:  # noqa: BLE001 - no tz database on this machine
        return False


def rand_zone_instant(rng):
    """(us, zone): an instant within a few hours of a DST transition of an IANA zone (or anywhere, 30 %)"""
    zone = rng.choice(ZONE_NAMES)
    if rng.random() < 0.3:
        return rand_instant(rng), zone
    t = rng.choice(ZONE_TRANSITIONS[zone]) * 10**6
    return t + rng.randrange(-3 * 3600 * 10**6, 3 * 3600 * 10**6) // 1000 * 1000 + rng.choice([0, 0, 1, 999, 500]), zone


def maybe_zone(rng, base, unit, p=0.05):
    """(base, unit, zone): now and then the grid is moved to the hours around a DST transition of an IANA zone and the
    events are to be built from aware datetimes of that zone (zone is None otherwise): an event of a few grid units then
    spans the clock change, where wall-clock arithmetic and instant arithmetic differ by an hour. Three of the zones are
    at UTC offset 0 in winter (a zone at offset zero is not UTC)."""
    if rng.random() >= p or not zones_available():
        return base, unit, None
    zone = rng.choice(ZONE_NAMES + ["Europe/London", "Europe/Lisbon"])
    unit = rng.choice([20 * 60 * 10**6, 30 * 60 * 10**6, 3600 * 10**6])
    base = rng.choice(ZONE_TRANSITIONS[zone]) * 10**6 - rng.randrange(1, 7) * unit
    return base, unit, zone


MAX_US = dt_us(datetime(2100, 1, 1, tzinfo=timezone.utc))
DAY_US = 86400 * 10**6

_SPECIAL_BASES = [
    0, 10**6, 2**31 * 10**6, 2**51, 2**50, 2**49, 2**48,
    dt_us(datetime(2000, 1, 1, tzinfo=timezone.utc)),
    dt_us(datetime(2000, 2, 29, 23, 59, 59, tzinfo=timezone.utc)),
    dt_us(datetime(2024, 12, 31, 23, 59, 59, tzinfo=timezone.utc)),
    dt_us(datetime(2038, 1, 19, 3, 14, 7, tzinfo=timezone.utc)),
    dt_us(datetime(2099, 12, 31, 23, 59, 59, tzinfo=timezone.utc)),
    dt_us(datetime(1999, 12, 31, 23, 59, 59, tzinfo=timezone.utc)),
    dt_us(datetime(2016, 12, 31, 23, 59, 59, tzinfo=timezone.utc)),
]
_US_PARTS = [0, 1, 499, 500, 999, 1000, 1001, 1999, 500000, 999000, 999001, 999499, 999500, 999998, 999999]


def rand_instant(rng, lo=0, hi=MAX_US) -> int:
    """An instant (µs since epoch) in [lo, hi) with deliberate mass on awkward values."""
    r = rng.random()
    if r < 0.35:
        v = rng.randrange(lo, hi)
    elif r < 0.75:
        sec = rng.randrange(lo // 10**6, hi // 10**6)
        part = rng.choice(_US_PARTS) if rng.random() < 0.7 else rng.randrange(10**6)
        v = sec * 10**6 + part
    else:
        v = rng.choice(_SPECIAL_BASES) + rng.choice([0, 0, 1, -1, 999, 1000, -1000, 10**6 - 1, rng.randrange(-10**7, 10**7)])
    return min(max(v, lo), hi - 1)


def rand_offset(rng) -> int:
    """UTC offset in minutes, in [-14 h, +14 h]."""
    r = rng.random()
    if r < 0.3:
        return 0
    if r < 0.5:
        return rng.choice([-840, 840, -720, 720, 330, 345, -210, 60, -60, 1, -1, 839, -839])
    return rng.randrange(-840, 841)


def rand_duration(rng, max_us=30 * DAY_US) -> int:
    r = rng.random()
    if r < 0.12:
        return 0
    if r < 0.3:
        return min(max_us, rng.choice([1, 999, 1000, 1001, 1999, 2000, 10**6 - 1, 10**6, 10**6 + 1,
                                       DAY_US - 1, DAY_US, DAY_US + 1, 30 * DAY_US, 30 * DAY_US - 1]))
    if r < 0.5:
        return rng.randrange(0, min(max_us, 10**6) + 1)
    if r < 0.8:
        return rng.randrange(0, min(max_us, DAY_US) + 1)
    return rng.randrange(0, max_us + 1)


_WORDS = ["", "a", "b", "title", "app", "url", "afk", "not-afk", "firefox", "x y", "ünï©ødé", "日本語", "𝄞𝔘", "😀",
          'q"uote', "ap'os", "back\\slash", "per%cent", "semi;colon", "[br]{ack}(ets)", "comma,sep", "a=b", "a:b",
          "tab\there", "new\nline", "null", "True", "1", " lead", "trail ", "é́", "﻿bom", " "]


# a title cut in the middle of an emoji: an unpaired UTF-16 surrogate (legal in a Python str and in JSON escapes)
_WORDS += ["cut \ud83d", "\udc00x"]


def rand_str(rng) -> str:
    r = rng.random()
    if r < 0.6:
        return rng.choice(_WORDS)
    n = rng.randrange(0, 12)
    alpha = "abcXYZ019 _-\"'\\%;,:=[]{}()/\t\nåß∂日𝄞😀"
    return "".join(rng.choice(alpha) for _ in range(n))


def rand_scalar(rng):
    r = rng.random()
    if r < 0.08:
        return None
    if r < 0.16:
        return rng.random() < 0.5
    if r < 0.36:
        return rng.choice([0, 1, -1, 2**31, 2**53, 2**53 + 1, -2**63, 2**64 + 7, 10**20, rng.randrange(-10**6, 10**6)])
    if r < 0.56:
        return rng.choice([0.0, -0.0, 0.1, 1.0, -1.5, 1e-7, 1e21, 1e300, 5e-324, 3.141592653589793, 2**53 + 2.0,
                           1 / 3, rng.random() * 10 ** rng.randrange(-10, 20)])
    return rand_str(rng)


def rand_json(rng, depth=3):
    if depth <= 0 or rng.random() < 0.45:
        return rand_scalar(rng)
    if rng.random() < 0.5:
        return [rand_json(rng, depth - 1) for _ in range(rng.randrange(0, 4))]
    return {rand_str(rng): rand_json(rng, depth - 1) for _ in range(rng.randrange(0, 4))}


def rand_data(rng, depth=3) -> dict:
    """An event's data dict (string keys)."""
    r = rng.random()
    if r < 0.1:
        return {}
    if r < 0.35:
        return {"label": rng.choice(["a", "b", "c"])}
    return {rand_str(rng): rand_json(rng, depth - 1) for _ in range(rng.randrange(1, 5))}


def rand_event_spec(rng, depth=3, max_dur=30 * DAY_US) -> dict:
    ts = rand_instant(rng)
    dur = rand_duration(rng, max_dur)
    if dur > 0 and rng.random() < 0.15:
        # the event straddles a power of two of the microsecond count: float spacing differs at start and end
        k = rng.choice([48, 49, 50, 51, 51, 51])
        ts = floor_ms(max(0, 2**k - rng.randrange(0, dur + 1)))
    if ts + dur >= MAX_US + 31 * DAY_US:
        dur = 0
    off = rand_offset(rng)
    if rng.random() < 0.04:
        # the first hours of 1970 as a clock EAST of Greenwich shows them: a date in 1970 whose UTC instant is negative
        off = rng.choice([60, 120, 330, 345, 540, 765, 840])
        ts = floor_ms(-off * 60 * 10**6 + rng.choice([0, 1000, 60 * 10**6, rng.randrange(0, off * 60 * 10**6 + 3600 * 10**6)]))
        dur = rng.choice([0, 1, 999, 10**6, 60 * 10**6, rng.randrange(0, 2 * off * 60 * 10**6 + 1)])
    return dict(ts=ts, off=off, dur=dur, data=rand_data(rng, depth))


def materialise(x):
    """case data is JSON; {"$tuple": [...]} and {"$intkeys": {...}} stand for Python values JSON cannot carry"""
    if isinstance(x, dict):
        if set(x) == {"$tuple"}:
            return tuple(materialise(v) for v in x["$tuple"])
        if set(x) == {"$intkeys"}:
            return {int(k): materialise(v) for k, v in x["$intkeys"].items()}
        return {k: materialise(v) for k, v in x.items()}
    if isinstance(x, list):
        return [materialise(v) for v in x]
    return x


def exact(x) -> str:
    """Type-exact canonical text of a Python value: unlike canon() it tells a tuple from a list, 1 from 1.0 from True,
    0.0 from -0.0 and an int key from a str key. For data that never went through JSON (what transforms are handed)."""
    def t(v):
        if isinstance(v, dict):
            return {"$d": sorted(([t(k), t(val)] for k, val in v.items()), key=lambda kv: json.dumps(kv[0], ensure_ascii=True, default=str))}
        if isinstance(v, list):
            return ["$l"] + [t(i) for i in v]
        if isinstance(v, tuple):
            return ["$t"] + [t(i) for i in v]
        if isinstance(v, bool):
            return ["$b", v]
        if isinstance(v, (int, float)):
            return ["$" + type(v).__name__[0], repr(v)]
        if v is None or isinstance(v, str):
            return v
        return ["$o", type(v).__name__, repr(v)]
    try:
        return json.dumps(t(x), ensure_ascii=False)
    except Exception:  # noqa: BLE001 - never let the oracle's printing decide anything
        return repr(x)


FORMS_USED = {}


def mk_event(spec: dict):
    """The Event a spec denotes. The FORM in which start and duration are handed to Event varies with the spec (a
    function of its numbers, so that a replay builds the same thing): mostly an aware datetime and a timedelta, but
    about a quarter of the events get their start as an ISO 8601 string carrying the offset (or Z; never a naive
    datetime or a zone-less string: no property says what those denote) or their duration as a float / int number of seconds -
    every form Event's signature accepts denotes the same event."""
    from aw_core.models import Event
    ts = mk_dt(spec["ts"], spec.get("off", 0), spec.get("zone"))
    dur = timedelta(microseconds=spec["dur"])
    form = "datetime+timedelta"
    if not spec.get("zone") and spec.get("form", True):
        h = (spec["ts"] // 1000 * 7 + spec["dur"] * 13 + spec.get("off", 0)) % 16
        if h == 0:
            ts, form = ts.isoformat(), "iso-string"
        elif h == 1 and spec.get("off", 0) == 0:
            ts, form = ts.isoformat().replace("+00:00", "Z"), "iso-string-with-Z"
        elif h == 1:
            ts, form = ts.isoformat().replace("T", " "), "iso-string-with-space"
        elif h == 2:
            dur, form = spec["dur"] / 10**6, "float-seconds"
            if timedelta(seconds=dur) != timedelta(microseconds=spec["dur"]):     # (cannot happen below ~100 years)
                dur, form = timedelta(microseconds=spec["dur"]), "datetime+timedelta"
        elif h == 3 and spec["dur"] % 10**6 == 0:
            dur, form = spec["dur"] // 10**6, "int-seconds"
    FORMS_USED[form] = FORMS_USED.get(form, 0) + 1
    return Event(id=spec.get("id"), timestamp=ts, duration=dur, data=materialise(copy.deepcopy(spec.get("data", {}))))


def mk_events(specs):
    return [mk_event(s) for s in specs]


def floor_ms(us: int) -> int:
    return us - us % 1000


def _canon_default(o):
    # values that are not JSON (an Event's datetime/timedelta inside `subevents`, …) get a tagged form so that
    # monitors stay usable on whatever a foreign workload hands to the monitored functions
    if isinstance(o, datetime):
        return {"$datetime": dt_us(o) if o.tzinfo else o.isoformat()}
    if isinstance(o, timedelta):
        return {"$timedelta": td_us(o)}
    if isinstance(o, (set, frozenset, tuple)):
        return {"$seq": [x for x in o]}
    return {"$py": type(o).__name__, "repr": repr(o)}


def canon(x) -> str:
    """Canonical JSON text: the meaning of 'equal JSON data'."""
    try:
        return json.dumps(x, sort_keys=True, ensure_ascii=False, allow_nan=False)
    except (TypeError, ValueError):
        return json.dumps(x, sort_keys=True, ensure_ascii=False, allow_nan=True, default=_canon_default, skipkeys=False)


def ev_obs(e) -> dict:
    """What is observable of an Event, in exact integers + canonical JSON."""
    return dict(id=e.id, ts=dt_us(e.timestamp), dur=td_us(e.duration), data=canon(e.data))


def ev_key(e):
    return (e.id, dt_us(e.timestamp), td_us(e.duration), canon(e.data))


# ---------------------------------------------------------------------------
# interval layouts on a small grid (ties, adjacency, nesting are likely)

def rand_grid(rng):
    """(base_us, unit_us): grid origin and step; always millisecond aligned."""
    base = floor_ms(rand_instant(rng, 10**12, MAX_US - 10**12))
    unit = rng.choice([1000, 1000, 2000, 10**6, 10**6, 977000, 60 * 10**6, 3600 * 10**6])
    if rng.random() < 0.02:
        # the hours before the Unix epoch (1 January 1970 on clocks east of Greenwich): negative instants, mostly not on whole seconds
        base = floor_ms(-rng.randrange(1, 14 * 3600 * 10**6))
    return base, unit


def rand_nonoverlapping(rng, n, span, allow_zero=True, touch_p=0.35, zero_p=0.2):
    """n intervals (s, e) on integer grid points in [0, span], sorted, pairwise non-overlapping
    (closed ends may touch; zero-length intervals allowed unless stated)."""
    out = []
    pos = rng.randrange(0, max(1, span // (n + 1)) + 1)
    for _ in range(n):
        if pos > span:
            break
        ln = 0 if (allow_zero and rng.random() < zero_p) else rng.randrange(1, max(2, span // max(1, n)) + 1)
        s, e = pos, min(span, pos + ln)
        if e == s and not allow_zero:
            break
        out.append((s, e))
        gap = 0 if rng.random() < touch_p else rng.randrange(1, max(2, span // max(1, n)) + 1)
        pos = e + gap
        if gap == 0 and e == s:
            pos = e + (0 if rng.random() < 0.3 else 1)
    return out


BUCKET_ID_FAMILIES = [
    ["bk-0", "bk-1", "bk-2", "bk-3"],
    # ids that differ only in letter case (hostnames are not case-stable everywhere), in SQL LIKE/GLOB wildcards, in
    # surrounding blanks, in Unicode composition, in how a number would be spelt, or in their last of many characters
    ["aw-watcher-afk_DESKTOP-7Q2", "aw-watcher-afk_desktop-7q2", "AW-WATCHER-AFK_DESKTOP-7Q2", "Aw-Watcher-Afk_Desktop-7q2"],
    ["bk_1", "bk%1", "bkx1", "bk*1"],
    ["bk", "bk ", " bk", "bk-"],
    ["b\u00e9", "be\u0301", "B\u00c9", "be"],
    ["1", "01", "1.0", "1e0"],
    ["a" * 200, "a" * 199 + "b", "a" * 201, "A" * 200],
]


def bucket_ids(rng, n, plain_p=0.5):
    """n distinct bucket ids: plain ones, or a family of ids that are easily taken for one another"""
    fam = BUCKET_ID_FAMILIES[0] if rng.random() < plain_p else rng.choice(BUCKET_ID_FAMILIES[1:])
    return rng.sample(fam, n)


# where batching code is likely to cut: powers of two, round decimal sizes, the peewee chunk of 100, the lazy-commit
# threshold of 50, and SQLite's limits divided by a row's column count (999 or 32766 bound variables per statement over
# 3 / 4 / 5 / 7 columns; 500 terms in a compound SELECT)
BATCH_EDGES = [50, 64, 100, 128, 142, 199, 249, 250, 256, 333, 499, 500, 512, 999, 1000, 1024, 4681, 6553, 8191, 8192, 10922]


def batch_edge(rng, cap):
    """a count that is a small multiple of a likely batch size, or one off"""
    base = rng.choice([b for b in BATCH_EDGES if b <= cap] or [cap])
    k = rng.choice([k for k in (1, 1, 2, 3, 4) if base * k <= cap] or [1])
    return max(0, base * k + rng.choice([0, 0, 0, -1, 1]))


# flat data dicts that Python calls equal (and hashes alike) although they are different JSON documents
EQUAL_LOOKING = [[{"flag": 1, "status": "afk"}, {"flag": True, "status": "afk"}, {"flag": 1.0, "status": "afk"}],
                 [{"load": 0.0}, {"load": -0.0}, {"load": 0}, {"load": False}],
                 [{"ticks": 2**53}, {"ticks": float(2**53)}],
                 [{"n": 10**15, "k": "v"}, {"n": 1e15, "k": "v"}]]


def equal_looking_pack(rng):
    """specs' data for a handful of events whose data dicts are ==-equal in Python but differ as JSON (1 / 1.0 / true,
    0.0 / -0.0 / 0 / false, 2**53 as int / float), in random order, some repeated"""
    fam = rng.choice(EQUAL_LOOKING)
    out = [copy.deepcopy(rng.choice(fam)) for _ in range(rng.randrange(2, 7))]
    return out


ID_MODES = ["unique", "unique", "unique", "some", "some", "none", "few", "same", "across"]


def id_mode(rng):
    """how the events of one list carry ids: all different, some without, none, only a few distinct ones (pieces cut from
    the same stored event keep its id; events of several buckets put together), all the same, the same numbers as in the
    other list"""
    return rng.choice(ID_MODES)


def pick_id(rng, mode, i, idbase):
    if mode == "unique":
        return idbase + i
    if mode == "some":
        return idbase + i if rng.random() < 0.6 else None
    if mode == "few":
        return idbase + rng.randrange(0, 3)
    if mode == "same":
        return idbase
    if mode == "across":
        return i % 4
    return None


def big_n(rng, n, p=0.004, sizes=(120, 257, 600)):
    """n, or (rarely) a list length two orders of magnitude beyond the usual handful: a change that behaves
    differently only beyond some size, or at a batch boundary, has to meet such a list"""
    return rng.choice(sizes) if rng.random() < p else n


def rand_intervals(rng, n, span, zero_p=0.2):
    """n arbitrary intervals on grid points in [0, span] (overlaps, nesting, duplicates likely)."""
    out = []
    for _ in range(n):
        s = rng.randrange(0, span + 1)
        if rng.random() < zero_p:
            e = s
        else:
            e = min(span, s + rng.randrange(1, max(2, span // 2)))
        out.append((s, e))
    if out and rng.random() < 0.3:
        out.append(rng.choice(out))
    return out
