"""Worker fan-out, seeds, watchdogs, verdicts, evidence and replay files.

A check is `run_property(pid, tier, seed)`: it starts up to 16 worker processes
(`python -m awverif.worker`), each of which drives the real aw-core code from
the repository working tree under the property's monitors, and aggregates what
the monitors observed into a three-valued verdict:

  exit 0  HELD          no violation on anything explored
  exit 1  VIOLATION     at least one violation not listed in known_findings.json
  exit 2  INCONCLUSIVE  deciding monitor not reached / watchdog / harness error
"""
import importlib
import json
import os
import shutil
import subprocess
import sys
import tempfile
import time

VERIF = os.path.dirname(os.path.dirname(os.path.abspath(__file__)))
REPO = os.path.abspath(os.environ.get("AWVERIF_REPO", "/repo"))
PY = sys.executable
# evidence is about /repo only; runs against a scratch copy (self-validation) write elsewhere
_OUT = VERIF if REPO == "/repo" else os.path.join(VERIF, "scratch")
EVIDENCE_DIR = os.path.join(_OUT, "evidence")
REPLAY_DIR = os.path.join(_OUT, "replays")
KNOWN_FILE = os.path.join(VERIF, "known_findings.json")

ALL_IDS = ["C%02d" % i for i in range(1, 21)]


def tmp_root() -> str:
    base = "/dev/shm" if os.path.isdir("/dev/shm") and os.access("/dev/shm", os.W_OK) else None
    return tempfile.mkdtemp(prefix="awverif-", dir=base)


# the local time zone of a worker process: nothing any property states depends on it, so every worker gets another one
# (whole-hour, half-hour and 45-minute offsets, both hemispheres' DST rules, beyond +12 h)
WORKER_ZONES = ["UTC", "Asia/Kolkata", "America/St_Johns", "Pacific/Auckland", "America/Los_Angeles", "Europe/Stockholm",
                "Pacific/Kiritimati", "Asia/Kathmandu", "UTC", "Australia/Lord_Howe", "America/Sao_Paulo", "Pacific/Marquesas",
                "Asia/Tokyo", "Africa/Casablanca", "Pacific/Pago_Pago", "Europe/London"]


# the directory a worker lives in (its HOME, XDG directories, database files and scratch space are all below it): names
# a user's home or data directory may well have - blanks, brackets, non-ASCII letters, characters that mean something to
# a shell, to glob, to printf or to a URL
WORKER_DIRS = ["w0", "w1 [work]", "wé2 日本", "w3 (copy)", "w4", "w5%20x", "w6#1", "w7 {a,b}", "w8", "w9 & co", "w10=x;y", "w11 'q'",
               "w12", "w13 $HOME", "w14+plus", "w15 [a-c]"]


def worker_dir(widx: int, seed: int = 0) -> str:
    return WORKER_DIRS[(widx + 3 * seed) % len(WORKER_DIRS)]


LOG_MODES = ["off", "debug", "warning"]      # logging disabled / every record built and formatted / the library default


def worker_env(root: str, tz: str = None, hashseed: int = 0, logmode: str = "off") -> dict:
    env = dict(os.environ)
    env["AWVERIF_LOG"] = logmode or "off"
    if tz and os.path.exists(os.path.join("/usr/share/zoneinfo", tz)):
        env["TZ"] = tz
    for k in ("data", "config", "cache", "state", "home"):
        os.makedirs(os.path.join(root, k), exist_ok=True)
    env.update(
        PYTHONPATH=f"{REPO}{os.pathsep}{VERIF}",
        PYTHONDONTWRITEBYTECODE="1",
        PYTHONHASHSEED=str(hashseed),       # fixed per worker (runs are repeatable), different between workers
        XDG_DATA_HOME=os.path.join(root, "data"),
        XDG_CONFIG_HOME=os.path.join(root, "config"),
        XDG_CACHE_HOME=os.path.join(root, "cache"),
        XDG_STATE_HOME=os.path.join(root, "state"),
        HOME=os.path.join(root, "home"),
        AWVERIF_REPO=REPO,
        AWVERIF_TMP=root,
    )
    return env


def _short_sample(smp, cap=6000):
    """a sample case as recorded, or - when it is a big one (thousands of events) - its head"""
    text = json.dumps(smp, default=str)
    if len(text) <= cap:
        return smp
    return dict(truncated=True, chars=len(text), head=text[:cap])


def load_known():
    try:
        with open(KNOWN_FILE) as f:
            doc = json.load(f)
    except FileNotFoundError:
        return []
    return [e for e in doc.get("findings", []) if e.get("status") == "known"]


def load_module(pid: str):
    return importlib.import_module(f"awverif.props.{pid.lower()}")


def _spawn(pid, tier, seed, widx, nworkers, plan, root):
    wroot = os.path.join(root, worker_dir(widx, seed))
    os.makedirs(wroot, exist_ok=True)
    out = os.path.join(root, f"w{widx}.json")
    args = dict(pid=pid, tier=tier, seed=seed, widx=widx, nworkers=nworkers,
                cases=plan["cases_per_worker"], time_s=plan["time_s"], out=out,
                extra=plan.get("extra", {}))
    p = subprocess.Popen([PY, "-m", "awverif.worker", json.dumps(args)],
                         env=worker_env(wroot, WORKER_ZONES[(widx + 5 * seed) % len(WORKER_ZONES)], hashseed=widx + 16 * seed,
                                        logmode=LOG_MODES[(widx + seed) % 3]),
                         cwd=wroot,
                         stdout=subprocess.DEVNULL, stderr=open(os.path.join(root, f"w{widx}.err"), "w"))
    return p, out


def run_property(pid: str, tier: str, seed: int) -> int:
    t0 = time.monotonic()
    mod = load_module(pid)
    plan = dict(mod.plan(tier))
    nworkers = plan.get("workers", 16)
    plan["cases_per_worker"] = -(-plan["cases"] // nworkers)
    root = tmp_root()
    results, dead = [], []
    try:
        procs = [_spawn(pid, tier, seed, w, nworkers, plan, root) for w in range(nworkers)]
        hard = time.monotonic() + plan.get("watchdog_s", plan["time_s"] * 3 + 60)
        for widx, (p, out) in enumerate(procs):
            try:
                p.wait(timeout=max(1.0, hard - time.monotonic()))
            except subprocess.TimeoutExpired:
                p.kill()
                p.wait()
                dead.append((widx, "watchdog"))
                continue
            if os.path.exists(out):
                with open(out) as f:
                    results.append(json.load(f))
            else:
                err = ""
                try:
                    err = open(os.path.join(root, f"w{widx}.err")).read()[-2000:]
                except OSError:
                    pass
                dead.append((widx, f"exit={p.returncode} no result; stderr tail: {err}"))
    finally:
        shutil.rmtree(root, ignore_errors=True)
    return finish(pid, tier, seed, mod, plan, results, dead, time.monotonic() - t0)


def aggregate(results):
    agg = dict(evaluations=0, nontrivial=0, sigs=set(), samples=[], violations=[],
               violations_total=0, counters={}, inconclusive=0, harness_errors=[],
               stopped_early=0, lines={})
    for r in results:
        agg["evaluations"] += r["evaluations"]
        agg["nontrivial"] += r["nontrivial"]
        agg["sigs"].update(r["sigs"])
        agg["violations"].extend(r["violations"])
        agg["violations_total"] += r["violations_total"]
        agg["inconclusive"] += r["inconclusive"]
        agg["harness_errors"].extend(r["harness_errors"])
        agg["stopped_early"] += 1 if r["stopped_early"] else 0
        for k, v in r["counters"].items():
            if isinstance(v, (int, float)):
                agg["counters"][k] = agg["counters"].get(k, 0) + v
        for f, ls in r.get("lines", {}).items():
            agg["lines"].setdefault(f, set()).update(ls)
    # samples: round-robin over case kinds so that they are diverse
    bykind = {}
    for r in results:
        for smp in r["samples"]:
            key = (smp.get("kind") or smp.get("fn") or smp.get("backend")) if isinstance(smp, dict) else None
            bykind.setdefault(str(key), []).append(smp)
    pools = [bykind[k] for k in sorted(bykind)]
    while any(pools) and len(agg["samples"]) < 5:
        for p in pools:
            if p and len(agg["samples"]) < 5:
                agg["samples"].append(p.pop(0))
    return agg


def finish(pid, tier, seed, mod, plan, results, dead, wall):
    agg = aggregate(results)
    known = [k for k in load_known() if k.get("property") == pid]
    classify = getattr(mod, "classify", None)
    fresh, known_hits = [], {}
    for v in agg["violations"]:
        mech = classify(v) if classify else None
        hit = next((k for k in known if mech is not None and k.get("mechanism") == mech), None)
        if hit is not None:
            known_hits.setdefault(mech, []).append(v)
        else:
            fresh.append(v)
    # violations beyond the per-worker cap were not kept in full; they are fresh unless every kept one was known
    uncapped = agg["violations_total"] - len(agg["violations"])

    coverage = dict(
        evaluations=agg["evaluations"],
        distinct_nontrivial=len(agg["sigs"]),
        nontrivial_cases=agg["nontrivial"],
        rule=getattr(mod, "RULE", ""),
        samples=[_short_sample(x) for x in agg["samples"][:5]] or [],
        counters=dict(sorted(agg["counters"].items())),
        inconclusive_cases=agg["inconclusive"],
        workers=len(results),
        workers_lost=[f"w{w}: {why[:300]}" for w, why in dead],
        workers_stopped_on_time_budget=agg["stopped_early"],
        known_findings_hit={m: len(v) for m, v in known_hits.items()},
        exhaustive=False,
    )
    anchors = getattr(mod, "ANCHOR_FILES", [])
    if anchors:
        from . import hooks
        cov = {}
        for rel in anchors:
            allx = hooks.executable_lines(os.path.join(REPO, rel))
            hit = set(agg["lines"].get(rel, ())) & allx
            cov[rel] = dict(executable=len(allx), hit=len(hit),
                            never_hit=sorted(allx - hit)[:80])
        coverage["anchor_lines"] = cov
    extra_cov = getattr(mod, "extra_coverage", None)
    if extra_cov:
        coverage.update(extra_cov(agg))
    evidence = dict(
        property_id=pid, tier=tier, seed=seed, level=getattr(mod, "LEVEL", "exploration"),
        coverage=coverage, assumptions=list(getattr(mod, "ASSUMPTIONS", [])),
        wall_s=round(wall, 2), violations=len(fresh) + (uncapped if fresh else 0),
        repo=REPO,
    )

    floor = plan.get("floor", max(1, plan["cases"] // 20))
    reasons = []
    if dead:
        reasons.append(f"{len(dead)} worker(s) lost ({dead[0][1][:200]})")
    if agg["harness_errors"]:
        reasons.append("harness error: " + agg["harness_errors"][0][-600:])
    if agg["evaluations"] < floor:
        reasons.append(f"only {agg['evaluations']} evaluations (floor {floor})")
    if len(agg["sigs"]) < 2:
        reasons.append("fewer than 2 distinct non-trivial cases observed")
    need = getattr(mod, "REQUIRED_COUNTERS", [])
    for c in need:
        if not agg["counters"].get(c):
            reasons.append(f"deciding monitor '{c}' never evaluated")
    evidence["verdict"] = "violated" if fresh else ("inconclusive" if reasons else "held")
    if reasons:
        evidence["inconclusive_reasons"] = reasons

    os.makedirs(EVIDENCE_DIR, exist_ok=True)
    tmp = os.path.join(EVIDENCE_DIR, f".{pid}.json.tmp")
    with open(tmp, "w") as f:
        json.dump(evidence, f, indent=1, sort_keys=False, default=str)
        f.write("\n")
    os.replace(tmp, os.path.join(EVIDENCE_DIR, f"{pid}.json"))

    for mech, vs in sorted(known_hits.items()):
        print(f"KNOWN-FINDING: property={pid} {mech} ({len(vs)} case(s), e.g. {vs[0]['detail'][:160]})")
    if fresh:
        os.makedirs(REPLAY_DIR, exist_ok=True)
        seen = set()
        n = 0
        for v in fresh:
            if v["kind"] in seen and n >= 3:
                continue
            seen.add(v["kind"])
            n += 1
            path = os.path.join(REPLAY_DIR, f"{pid}-{tier}-s{seed}-{n}.json")
            with open(path, "w") as f:
                json.dump(dict(property=pid, tier=tier, seed=seed, kind=v["kind"],
                               detail=v["detail"], case=v["case"], tz=v.get("tz"), wdir=v.get("wdir"), hashseed=v.get("hashseed"), logmode=v.get("logmode")), f, indent=1, default=str)
            print(f"VIOLATION property={pid} replay={path}")
            print(f"  kind={v['kind']} detail={v['detail'][:400]}")
            if n >= 8:
                break
        print(f"  ({len(fresh)} violating case(s) kept, {agg['violations_total']} violation(s) in total, "
              f"{agg['evaluations']} evaluations)")
        return 1
    if reasons:
        print(f"INCONCLUSIVE property={pid} reason={'; '.join(reasons)}")
        return 2
    print(f"HELD property={pid} tier={tier} seed={seed} evaluations={agg['evaluations']} "
          f"distinct_nontrivial={len(agg['sigs'])} wall_s={wall:.1f}")
    return 0


def replay(pid: str, path: str) -> int:
    """Re-run one recorded case in a fresh worker process."""
    with open(path) as f:
        doc = json.load(f)
    root = tmp_root()
    try:
        out = os.path.join(root, "replay.json")
        args = dict(pid=pid, replay=doc["case"], out=out, tier=doc.get("tier", "quick"),
                    seed=doc.get("seed", 0), widx=0, nworkers=1, cases=1, time_s=600, extra={})
        wroot = os.path.join(root, doc.get("wdir") or "w0")
        os.makedirs(wroot)
        p = subprocess.run([PY, "-m", "awverif.worker", json.dumps(args)], env=worker_env(wroot, doc.get("tz"), hashseed=doc.get("hashseed") or 0,
                                                                                       logmode=doc.get("logmode") or "off"),
                           cwd=wroot, timeout=900)
        if not os.path.exists(out):
            print(f"INCONCLUSIVE property={pid} reason=replay worker exit={p.returncode}")
            return 2
        with open(out) as f:
            r = json.load(f)
    finally:
        shutil.rmtree(root, ignore_errors=True)
    if r["harness_errors"]:
        print(f"INCONCLUSIVE property={pid} reason=harness error: {r['harness_errors'][0][-800:]}")
        return 2
    if r["violations"]:
        for v in r["violations"]:
            print(f"VIOLATION property={pid} replay={path}")
            print(f"  kind={v['kind']} detail={v['detail'][:2000]}")
        return 1
    print(f"HELD property={pid} replay={path} (case no longer violates)")
    return 0
