"""One worker process: drives the real code for one property and reports what its monitors saw."""
import importlib
import json
import logging
import os
import random
import sys
import time
import traceback


class Ctx:
    """What a property driver gets: a seeded PRNG, a budget and a place to record observations."""

    def __init__(self, a):
        self.pid = a["pid"]
        self.tier = a["tier"]
        self.seed = a["seed"]
        self.widx = a["widx"]
        self.nworkers = a["nworkers"]
        self.n_cases = a["cases"]
        self.extra = a.get("extra", {})
        self.rng = random.Random(f"{self.seed}:{self.pid}:{self.widx}")
        self.t0 = time.monotonic()
        self.deadline = self.t0 + a["time_s"]
        self.tmp = os.environ.get("AWVERIF_TMP", os.getcwd())
        self.evaluations = 0
        self.nontrivial = 0
        self.sigs = set()
        self.samples = []
        self._sample_keys = []
        self.violations = []
        self.violations_total = 0
        self._per_kind = {}
        self.counters = {}
        self.inconclusive = 0
        self.harness_errors = []
        self.stopped_early = False
        self.classify = None

    # budget -------------------------------------------------------------
    def more(self) -> bool:
        if self.evaluations >= self.n_cases:
            return False
        if self.violations_total >= 2000:   # a broken tree: enough witnesses, stop early
            return False
        if time.monotonic() >= self.deadline:
            self.stopped_early = True
            return False
        return True

    def time_left(self) -> float:
        return self.deadline - time.monotonic()

    # recording ----------------------------------------------------------
    def count(self, key, n=1):
        self.counters[key] = self.counters.get(key, 0) + n

    def record(self, case, viols, sig=None, nontrivial=True, sample=None, weight=1, nontrivial_weight=None):
        """One executed case: its violations (list of (kind, detail)), its shape signature.
        weight > 1: the case bundles that many separately judged inputs (e.g. a sweep)."""
        self.evaluations += weight
        if nontrivial:
            self.nontrivial += weight if nontrivial_weight is None else nontrivial_weight
            if sig is not None:
                self.sigs.add(sig if isinstance(sig, str) else json.dumps(sig, sort_keys=True, default=str))
            smp = sample if sample is not None else case
            key = (smp.get("kind") or smp.get("fn") or smp.get("backend")) if isinstance(smp, dict) else None
            if len(self.samples) < 6 and sum(1 for k, _ in self._sample_keys if k == key) < 2:
                self._sample_keys.append((key, None))
                self.samples.append(smp)
        for kind, detail in viols:
            self.violation(kind, detail, case)

    def violation(self, kind, detail, case):
        self.violations_total += 1
        self.count(f"violation.{kind}")
        v = dict(kind=kind, detail=str(detail)[:4000], case=case, tz=os.environ.get("TZ"), hashseed=int(os.environ.get("PYTHONHASHSEED") or 0), logmode=os.environ.get("AWVERIF_LOG"),
                 wdir=os.path.basename(os.environ.get("AWVERIF_TMP", "")) or None)
        key = kind
        if self.classify:
            try:
                key = f"{kind}|{self.classify(v)}"
            except Exception:  # classifier must never hide a violation
                key = kind
        n = self._per_kind.get(key, 0)
        if n < 4 and len(self.violations) < 80:
            self._per_kind[key] = n + 1
            self.violations.append(v)

    def result(self):
        return dict(
            evaluations=self.evaluations, nontrivial=self.nontrivial, sigs=sorted(self.sigs),
            samples=self.samples, violations=self.violations, violations_total=self.violations_total,
            counters=self.counters, inconclusive=self.inconclusive, harness_errors=self.harness_errors,
            stopped_early=self.stopped_early, wall_s=round(time.monotonic() - self.t0, 2),
        )


def assert_repo_under_test():
    """Every aw-core package must come from the working tree named by AWVERIF_REPO."""
    repo = os.path.realpath(os.environ["AWVERIF_REPO"])
    for name in ("aw_core", "aw_datastore", "aw_transform", "aw_query"):
        mod = importlib.import_module(name)
        f = os.path.realpath(mod.__file__)
        if not f.startswith(repo + os.sep):
            raise RuntimeError(f"{name} resolved to {f}, not under {repo}")


_ENVIRONMENT = ("disk is full", "disk i/o error", "unable to open database", "no space left", "too many open files",
                "cannot allocate memory", "database is locked", "readonly database")


def raised_by_code_under_test(exc):
    """Where an exception that escaped from a case came from: (True, 'file:function') when, after the last frame of this
    harness, the traceback runs through the repository under test (the exception was raised by it or by a library it
    called); (False, …) when the harness itself raised. Environment trouble (disk full, …) is never attributed to the code."""
    repo = os.path.realpath(os.environ["AWVERIF_REPO"]) + os.sep
    tb = traceback.extract_tb(exc.__traceback__)
    last_own = max((i for i, f in enumerate(tb) if os.sep + "awverif" + os.sep in f.filename), default=-1)
    after = [f for f in tb[last_own + 1:] if os.path.realpath(f.filename).startswith(repo)]
    text = f"{type(exc).__name__}: {exc}".lower()
    if isinstance(exc, (MemoryError, OSError)) or any(e in text for e in _ENVIRONMENT):
        return False, "environment"
    if after:
        return True, f"{os.path.relpath(after[-1].filename, repo)}:{after[-1].name}"
    return False, "harness"


def guarded(mod, case, ctx):
    """run_case, with an exception that escapes from the code under test turned into a violation of the case (every check
    drives operations that the property's reference says succeed: on the unchanged tree no case raises) and an exception
    of the harness itself recorded as a harness error without ending the worker."""
    try:
        return mod.run_case(case, ctx)
    except Exception as ex:  # noqa: BLE001
        mine, where = raised_by_code_under_test(ex)
        if mine:
            ctx.count("cases_ended_by_an_exception_from_the_code_under_test")
            return [(f"unexpected-exception:{type(ex).__name__}@{where}",
                     f"{type(ex).__name__}: {str(ex)[:300]} escaped from {where} in an operation the reference performs without error")], \
                dict(sig=None, nontrivial=True)
        if len(ctx.harness_errors) < 20:
            ctx.harness_errors.append(traceback.format_exc())
        ctx.count("cases_ended_by_a_harness_error")
        if ctx.counters.get("cases_ended_by_a_harness_error", 0) > 200:
            raise
        return [], dict(sig=None, nontrivial=False)


def default_worker(mod, ctx):
    while ctx.more():
        case = mod.gen_case(ctx.rng, ctx)
        viols, info = guarded(mod, case, ctx)
        ctx.record(case, viols, sig=info.get("sig"), nontrivial=info.get("nontrivial", True),
                   sample=info.get("sample"), weight=info.get("weight", 1),
                   nontrivial_weight=info.get("nontrivial_weight"))


def main():
    a = json.loads(sys.argv[1])
    # what the process logs is nobody's concern here, but WHETHER records are built and formatted is part of the environment:
    # a third of the workers run with logging disabled, a third with every record (DEBUG) built, formatted and thrown away,
    # a third with the library default (WARNING)
    logmode = os.environ.get("AWVERIF_LOG", "off")
    if logmode == "off":
        logging.disable(logging.CRITICAL)
    else:
        h = logging.StreamHandler(open(os.devnull, "w"))
        h.setFormatter(logging.Formatter("%(asctime)s [%(levelname)s] %(name)s:%(lineno)s %(funcName)s: %(message)s"))
        root = logging.getLogger()
        root.handlers[:] = [h]
        root.setLevel(logging.DEBUG if logmode == "debug" else logging.WARNING)
        logging.raiseExceptions = False
    import warnings
    warnings.simplefilter("ignore")
    ctx = Ctx(a)
    ctx.count("process_time_zone." + (os.environ.get("TZ") or "unset"))
    ctx.count("process_logging." + logmode)
    lines = {}
    try:
        assert_repo_under_test()
        mod = importlib.import_module(f"awverif.props.{a['pid'].lower()}")
        ctx.classify = getattr(mod, "classify", None)
        cov = None
        anchors = getattr(mod, "ANCHOR_FILES", [])
        if anchors:
            from . import hooks
            cov = hooks.LineCoverage(os.environ["AWVERIF_REPO"], anchors)
            cov.start()
        try:
            if hasattr(mod, "setup"):
                mod.setup(ctx)
            if "replay" in a:
                viols, info = guarded(mod, a["replay"], ctx)
                ctx.record(a["replay"], viols, sig=info.get("sig"), nontrivial=True)
            elif hasattr(mod, "worker"):
                mod.worker(ctx)
            else:
                default_worker(mod, ctx)
            if hasattr(mod, "teardown"):
                mod.teardown(ctx)
        finally:
            if cov:
                lines = cov.stop()
    except BaseException:
        ctx.harness_errors.append(traceback.format_exc())
    try:
        from . import gen
        for form, n in gen.FORMS_USED.items():
            ctx.count("event_argument_form." + form, n)
    except Exception:  # noqa: BLE001
        pass
    res = ctx.result()
    res["lines"] = lines
    tmp = a["out"] + ".tmp"
    with open(tmp, "w") as f:
        json.dump(res, f, default=str)
    os.replace(tmp, a["out"])


if __name__ == "__main__":
    main()
