"""pytest plugin: run the repository's own tests with the function-boundary monitors switched on.

    AWVERIF_PYTEST_REPORT=/path/report.json pytest -p awverif.pytest_monitors …

The monitors judge only calls inside their property's domain (others are counted as out_of_domain), so the
deliberately odd inputs of some tests (overlapping events handed to flood, …) are not false alarms."""
import importlib
import json
import os

_MONS = []

PROPS = ["c08", "c09", "c10", "c15", "c16", "c19"]


def install_all():
    from . import hooks
    import aw_query.functions  # noqa: F401  (its `from aw_transform import …` aliases must exist to be patched)
    for p in PROPS:
        mod = importlib.import_module(f"awverif.props.{p}")
        for m, name, pre, post in mod.monitors():
            mon = hooks.Monitor(m, name, pre, post, label=f"{p.upper()}:{name}").install()
            _MONS.append((p.upper(), name, mon))
    return _MONS


def report():
    out = []
    for prop, name, mon in _MONS:
        out.append(dict(property=prop, function=name, evaluations=mon.evaluations, out_of_domain=mon.out_of_domain,
                        violations_total=mon.violations_total,
                        violations=[dict(kind=k, detail=str(d)[:1500]) for k, d, _ in mon.violations[:10]]))
    return out


def pytest_sessionstart(session):
    install_all()


def pytest_sessionfinish(session, exitstatus):
    path = os.environ.get("AWVERIF_PYTEST_REPORT")
    if path:
        with open(path, "w") as f:
            json.dump(dict(exitstatus=int(exitstatus), monitors=report()), f)
