"""Reference models and integer-microsecond interval algebra (independent of `timeslot`)."""
from typing import Iterable, List, Tuple

Iv = Tuple[int, int]


# ---------------------------------------------------------------------------
# closed-interval union (degenerate points kept): the meaning of "the union of all input intervals"

def closed_union(ivs: Iterable[Iv]) -> List[Iv]:
    out: List[List[int]] = []
    for s, e in sorted((s, e) for s, e in ivs if e >= s):
        if out and s <= out[-1][1]:
            if e > out[-1][1]:
                out[-1][1] = e
        else:
            out.append([s, e])
    return [(s, e) for s, e in out]


# ---------------------------------------------------------------------------
# positive-measure sets: sorted disjoint half-open pieces with touching pieces coalesced

def norm(ivs: Iterable[Iv]) -> List[Iv]:
    out: List[List[int]] = []
    for s, e in sorted((s, e) for s, e in ivs if e > s):
        if out and s <= out[-1][1]:
            if e > out[-1][1]:
                out[-1][1] = e
        else:
            out.append([s, e])
    return [(s, e) for s, e in out]


def measure(ivs: Iterable[Iv]) -> int:
    return sum(e - s for s, e in norm(ivs))


def intersect(a: Iterable[Iv], b: Iterable[Iv]) -> List[Iv]:
    a, b = norm(a), norm(b)
    i = j = 0
    out = []
    while i < len(a) and j < len(b):
        s, e = max(a[i][0], b[j][0]), min(a[i][1], b[j][1])
        if s < e:
            out.append((s, e))
        if a[i][1] <= b[j][1]:
            i += 1
        else:
            j += 1
    return out


def subtract(a: Iterable[Iv], b: Iterable[Iv]) -> List[Iv]:
    a, b = norm(a), norm(b)
    out = []
    for s, e in a:
        cur = s
        for bs, be in b:
            if be <= cur:
                continue
            if bs >= e:
                break
            if bs > cur:
                out.append((cur, bs))
            cur = max(cur, be)
            if cur >= e:
                break
        if cur < e:
            out.append((cur, e))
    return out


def union(a: Iterable[Iv], b: Iterable[Iv]) -> List[Iv]:
    return norm(list(a) + list(b))


def subset(a: Iterable[Iv], b: Iterable[Iv]) -> bool:
    return not subtract(a, b)


def overlaps_pos(x: Iv, y: Iv) -> bool:
    """positive-length overlap"""
    return min(x[1], y[1]) > max(x[0], y[0])


def pairwise_disjoint(ivs: List[Iv]) -> bool:
    """no two intervals overlap for a positive time"""
    pos = sorted(iv for iv in ivs if iv[1] > iv[0])
    return all(pos[i][1] <= pos[i + 1][0] for i in range(len(pos) - 1))


def allen(x: Iv, y: Iv) -> str:
    """Allen relation of x to y as a short code (13 relations + degenerate flags)."""
    (a, b), (c, d) = x, y
    if b < c:
        r = "b"   # before
    elif b == c:
        r = "m" if a < b and c < d else "m0"  # meets
    elif a > d:
        r = "B"
    elif a == d:
        r = "M" if a < b and c < d else "M0"
    elif a == c and b == d:
        r = "e"
    elif a == c:
        r = "s" if b < d else "S"
    elif b == d:
        r = "f" if a > c else "F"
    elif a > c and b < d:
        r = "d"
    elif a < c and b > d:
        r = "D"
    elif a < c:
        r = "o"
    else:
        r = "O"
    return r


# ---------------------------------------------------------------------------
# heartbeat rule (C07, C08) on (ts_us, dur_us, data_canon)

def ref_heartbeat_merge(last, hb, pulse_us):
    """Returns the merged (ts, dur, data) or None. last/hb = (ts, dur, data)."""
    s1, d1, x1 = last
    s2, d2, x2 = hb
    if x1 != x2:
        return None
    if not (s1 <= s2 <= s1 + d1 + pulse_us):
        return None
    if d1 < 0:
        return None
    end = max(s1 + d1, s2 + d2)
    return (s1, end - s1, x1)


def ref_reduce(events, pulse_us):
    out = []
    for ev in events:
        if out:
            m = ref_heartbeat_merge(out[-1], ev, pulse_us)
            if m is not None:
                out[-1] = m
                continue
        out.append(tuple(ev))
    return out
